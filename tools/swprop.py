"""Common main() for the properties decided by the ScanWalk.tla family."""
import json, os, sys
sys.path.insert(0, os.path.dirname(os.path.abspath(__file__)))
import vf, args, scanwalk


def pick(cfgs, thorough):
    out = []
    for c in cfgs:
        t = c.replace(".cfg", "-t.cfg")
        out.append(t if thorough and os.path.exists(os.path.join(vf.SPEC, "cfg", t)) else c)
    return out


def run(prop, quick_cfgs, thorough_extra, mc_cfgs, modes, rule, not_explored, assumptions, sanity=(("ScanWalk-sanity.cfg", "SanityExtract"),), extra=None, level="model_checking"):
    a = args.parse()
    ck = vf.Check(prop, level, tier=a.tier, seed=a.seed)
    if a.replay:
        rec = json.load(open(a.replay))["replay"]
        if rec.get("family", "scanwalk") == "scanwalk":
            scanwalk.replay_one(ck, rec)
        elif extra:
            extra(ck, rec)
        return ck.finish()
    for sc, inv in sanity:
        s = vf.tlc("ScanWalk", sc, workers=4, collect=False, timeout=300)
        if s.violated != inv:
            raise vf.NotAVerdict("sanity invariant %s not violated: vacuous model" % inv)
    for c in pick(mc_cfgs, ck.thorough()):
        r = vf.require_ok(vf.tlc("ScanWalk", c, collect=False, timeout=2400), c)
        ck.add_tlc(c, r, open(os.path.join(vf.SPEC, "cfg", c)).read().split("SPECIFICATION")[0].strip())
    fams = pick(quick_cfgs, ck.thorough()) + (thorough_extra if ck.thorough() else [])
    scanwalk.run_family(ck, fams, modes)
    if extra:
        extra(ck, None)
    ck.cov["exhaustive"] = True
    ck.cov["rule"] = rule
    ck.cov["not_explored"] += not_explored
    ck.assumptions += assumptions
    return ck.finish()
