#!/usr/bin/env python3
"""C16 part (a) - the patch fan-out of guided remediation is schedule independent.
"Under every goroutine interleaving, guided remediation's patch computation returns the same sorted,
de-duplicated patch list" - all interleavings, at the granularity of the caller-supplied callbacks (resolve
client and matcher calls), of 2..4 concurrent patch attempts.

TLC: PatchFanout.tla (owned by the lead) proves schedule independence of the receive/spawn/sort/compact loop for
every patch function F. Code binding (harness `vremfix fanout`): for universes whose patch computation runs 2-4
concurrent attempts (with follow-up attempts for introduced vulnerabilities and with attempts that yield equal
patches), the REAL relax/override ComputePatches is run under EVERY arrival order (a seeded sample beyond the
cap): attempts are gated at their first resolve-client/matcher callback and released one at a time, the next
only after the RecvHook call of the previous; the returned []result.Patch must be identical for all orders,
strictly sorted by Patch.Compare, and every started attempt must have been received. Thorough adds one ungated
run per universe under the Go race detector."""
import json, os, random, subprocess, sys, tempfile, shutil
sys.path.insert(0, os.path.dirname(os.path.abspath(__file__)))
import vf
import c11

COMBOS = [["simple", "simple"], ["simple", "spawn"], ["dup"], ["dup", "simple"], ["spawn", "spawn"], ["simple", "simple", "simple"],
          ["simple", "simple", "spawn"], ["dup", "spawn"], ["simple", "simple", "simple", "simple"], ["dup", "dup"], ["dup2", "simple"],
          ["chain", "simple"], ["spawn", "dup", "simple"], ["chain", "chain"], ["dup2", "dup2"],
          # deep follow-up chains: depth 3 and 4, two or three new vulnerabilities at the last step (the follow-up attempts
          # of one receipt are started together: their id lists must not share storage)
          ["deep3x2", "simple"], ["deep3x3", "simple"], ["deep4x2", "simple"], ["deep4x3", "simple"], ["deep3x2", "spawn"],
          ["deep2x2", "simple"], ["deep3x2", "deep3x2"],
          ["shared"], ["shared", "simple"], ["shared", "shared"]]


def gadget_universe(kind, gadgets, level=None):
    """One vulnerable package per gadget below the root (npm/relax: a pinned direct dependency; Maven/override: a
    transitive dependency). simple = one vulnerability fixed by the next version; spawn/chain = the fixing version
    introduces the next vulnerability (follow-up attempts); dup = two vulnerabilities fixed by the same bump (two
    attempts, equal patches: compaction); dup2 = two vulnerabilities fixed by different bumps of one package."""
    eco = "npm" if kind == "relax" else "Maven"
    nm = (lambda p: p) if eco == "npm" else (lambda p: "pkg:" + p)
    uni, man, vulns = [], [], []

    def V(pkg, lo, hi):
        ev = [["introduced", lo]] + ([["fixed", hi]] if hi else [])
        vulns.append({"id": "V%d" % (len(vulns) + 1), "pkg": nm(pkg), "events": ev, "sev": "high"})
    for i, g in enumerate(gadgets):
        vs = ["1.0.0", "1.1.0", "2.0.0", "3.0.0"]
        deep = None
        if g.startswith("deep"):
            # deepDxK: a chain of D follow-up steps (each fixing version introduces the next vulnerability), and the
            # D-th step introduces K new vulnerabilities at once, fixed by K different later versions (so the K follow-up
            # attempts started together yield different patches)
            d, k = int(g[4]), int(g[6])
            deep = (d, k)
            vs = ["1.0.0", "1.1.0"] + ["%d.0.0" % m for m in range(2, d + k + 2)]
        if g == "shared":
            # two vulnerabilities on one resolved node below two direct dependencies, one of which constrains only the
            # second vulnerability: the attempts for V1 and V2 derive different constraining subgraphs from one shared
            # dependency subgraph (relax only; under override nothing constrains)
            a, b, bad = "sa%d" % i, "sb%d" % i, "sbad%d" % i
            anyv = ">=1.0.0" if eco == "npm" else "[1.0.0,)"
            uni.append({"name": nm(a), "versions": [{"v": "1.0.0", "deps": [[nm(bad), "^1.0.0" if eco == "npm" else "[1.0.0,2.0.0)"]], "latest": False},
                                                    {"v": "2.0.0", "deps": [[nm(bad), anyv]], "latest": True}]})
            uni.append({"name": nm(b), "versions": [{"v": "1.0.0", "deps": [[nm(bad), "<3.0.0" if eco == "npm" else "[1.0.0,3.0.0)"]], "latest": False},
                                                    {"v": "2.0.0", "deps": [[nm(bad), anyv]], "latest": True}]})
            uni.append({"name": nm(bad), "versions": [{"v": v, "deps": [], "latest": v == "3.0.0"} for v in ("1.0.0", "2.0.0", "3.0.0")]})
            man.append({"name": nm(a), "req": "^1.0.0" if eco == "npm" else "1.0.0", "group": ""})
            man.append({"name": nm(b), "req": "^1.0.0" if eco == "npm" else "1.0.0", "group": ""})
            V(bad, "0", "2.0.0"); V(bad, "0", "3.0.0")
            continue
        p = "p%d" % i
        up = {"name": nm(p), "versions": [{"v": v, "deps": [], "latest": v == vs[-1]} for v in vs]}
        if kind == "relax":
            uni.append(up)
            man.append({"name": nm(p), "req": "1.0.0", "group": ""})
        else:
            w = "w%d" % i
            uni.append({"name": nm(w), "versions": [{"v": "1.0.0", "deps": [[nm(p), "1.0.0"]], "latest": True}]})
            uni.append(up)
            man.append({"name": nm(w), "req": "1.0.0", "group": ""})
        if g == "simple":
            V(p, "0", "1.1.0")
        elif g == "spawn":
            V(p, "0", "1.1.0"); V(p, "1.1.0", "2.0.0")
        elif g == "chain":
            V(p, "0", "1.1.0"); V(p, "1.1.0", "2.0.0"); V(p, "2.0.0", "3.0.0")
        elif g == "dup":
            V(p, "0", "1.1.0"); V(p, "0", "1.1.0")
        elif g == "dup2":
            V(p, "0", "1.1.0"); V(p, "0", "2.0.0")
        elif deep:
            d, k = deep
            lo = "0"
            for step in range(1, d + 1):          # vs[step] fixes the step-th vulnerability and introduces the next
                V(p, lo, vs[step])
                lo = vs[step]
            for j in range(k):                    # k vulnerabilities appear together at vs[d]
                V(p, vs[d], vs[d + 1 + j])
    o = c11.base_opts("npm-relax" if kind == "relax" else "maven-override")
    o["maxUpgrades"] = 0
    if level:
        o["levels"] = {"": level}
    sc = {"eco": eco, "universe": uni, "manifest": man, "vulns": vulns, "opts": o}
    return {"fam": "PatchFanout", "cfg": "gadgets:" + kind + ":" + "+".join(gadgets) + (":" + level if level else ""),
            "id": vf.case_id(sc), "scenario": sc}


def universes(ck):
    out = []
    for kind in ("relax", "override"):
        for c in COMBOS:
            out.append(gadget_universe(kind, c))
        out.append(gadget_universe(kind, ["spawn", "simple"], "minor"))     # the follow-up attempt is not allowed its bump
    # seeded random universes of the C11/C12 generator that have at least two vulnerabilities and no 'none' level
    rng = random.Random(ck.seed * 104729 + 17)
    n = 0
    want = 1500 if ck.thorough() else 300
    while n < want:
        c = c11.random_case(rng, n)
        o = c["scenario"]["opts"]
        if o["mode"] != "fix" or len(c["scenario"]["vulns"]) < 2 or "none" in o["levels"].values():
            continue
        c["fam"] = "PatchFanout"
        out.append(c)
        n += 1
    return out


def run_fanout(cases, binary_args=None, race=False, mode="gated", nproc=4):
    """the RecvHook is process-global, so one process replays its universes one after the other; nproc processes"""
    from concurrent.futures import ThreadPoolExecutor
    for c in cases:
        c["mode"] = mode
    parts = [cases[i::nproc] for i in range(nproc)]
    idx = [list(range(len(cases)))[i::nproc] for i in range(nproc)]
    vf.build_harness("vremfix", race=race)

    def one(k):
        if not parts[k]:
            return [], ""
        if race:
            p = vf.run_harness("vremfix", "fanout", parts[k], timeout=1500, race=True, raw=False,
                               env_extra={"GORACE": "halt_on_error=0 exitcode=0 log_path=%s" % os.path.join(racedir, "race%d" % k)})
            return p, ""
        return vf.run_harness("vremfix", "fanout", parts[k], timeout=1500), ""
    racedir = tempfile.mkdtemp(prefix="vrace-")
    try:
        res = [None] * len(cases)
        with ThreadPoolExecutor(max_workers=nproc) as ex:
            for k, (outs, _) in enumerate(ex.map(one, range(nproc))):
                for o in outs:
                    res[idx[k][o["i"]]] = o
        races = ""
        for f in os.listdir(racedir):
            races += open(os.path.join(racedir, f)).read()
        return res, races
    finally:
        shutil.rmtree(racedir, ignore_errors=True)


def run(ck, replay=None):
    if replay is not None:
        c = dict(replay["case"])
        if replay.get("order"):
            c["orders"] = [replay["order"]]
        cases = [c]
    else:
        s = vf.tlc("PatchFanout", "PatchFanout-sanity.cfg", workers=2, collect=False, timeout=120)
        if s.violated != "SanityOrders":
            raise vf.NotAVerdict("PatchFanout sanity invariant not violated: vacuous model")
        for cfg in ["PatchFanout-mc.cfg"] + (["PatchFanout-mc-group.cfg"] if ck.thorough() else []):
            r = vf.require_ok(vf.tlc("PatchFanout", cfg, collect=False, timeout=900), cfg)
            ck.add_tlc(cfg, r)
        cases = universes(ck)
        for c in cases:
            # every arrival order when there are at most that many; a seeded sample of that size beyond
            designed = c["cfg"].startswith("gadgets:")
            c["max_schedules"] = (720 if designed else 120) if ck.thorough() else (60 if designed else 24)
            c["seed"] = ck.seed
    outs, _ = run_fanout(cases)
    if any(o is None for o in outs):
        raise vf.NotAVerdict("fanout harness returned %d of %d universes" % (sum(o is not None for o in outs), len(cases)))
    n_sched = n_uni = n_spawn = n_compact = n_complete = n_stuck = n_closure = max_depth = 0
    by_roots = {}
    for c, o in zip(cases, outs):
        if o.get("mismatch"):
            ck.violation("patch fan-out (%s, %s): %s" % (c["scenario"]["opts"]["strategy"], c["cfg"], o["mismatch"]),
                         {"part": "a", "case": {k: v for k, v in c.items() if k not in ("orders", "mode")}, "order": o.get("bad_order"),
                          "attempts": o.get("attempts"), "mismatch": o["mismatch"]})
            continue
        if o.get("stuck"):
            n_stuck += 1            # the arrival order could not be imposed (an attempt without callbacks): not a verdict
            continue
        if o.get("skip") or o["orders"] == 0:
            continue
        n_uni += 1
        n_sched += o["orders"]
        n_spawn += 1 if o["spawned"] else 0
        n_compact += 1 if o["compacted"] else 0
        n_complete += 1 if o["complete"] else 0
        n_closure += 1 if o.get("closure_checked") else 0
        max_depth = max(max_depth, o.get("depth", 0))
        by_roots[o["roots"]] = by_roots.get(o["roots"], 0) + 1
        if o["spawned"] and o["orders"] >= 3 and not any(s.get("part") == "a" for s in ck.cov["samples"]):
            ck.sample({"part": "a", "universe": c["cfg"], "strategy": c["scenario"]["opts"]["strategy"], "attempts": o["attempts"],
                       "arrival_orders_replayed": o["orders"], "patches": o["patches"]}, cap=8)
    gadgets = [o for c, o in zip(cases, outs) if c["cfg"].startswith("gadgets:")]
    if replay is None and any(o.get("stuck") or o.get("skip") for o in gadgets):
        bad = [o for o in gadgets if o.get("stuck") or o.get("skip")][0]
        raise vf.NotAVerdict("fanout harness could not impose the arrival orders on a designed universe: %s" % (bad.get("stuck") or bad.get("skip")))
    ck.count(n_sched)
    ck.cov["distinct_nontrivial"] += n_uni
    ck.cov["traces_validated_against_impl"] += n_sched
    ck.cov["fanout_schedules_replayed"] = n_sched
    ck.cov["fanout_universes"] = n_uni
    ck.cov["fanout_universes_with_followup_attempts"] = n_spawn
    ck.cov["fanout_universes_with_compaction_or_failed_attempts"] = n_compact
    ck.cov["fanout_universes_all_orders"] = n_complete
    ck.cov["fanout_universes_attempt_closure_checked"] = n_closure
    ck.cov["fanout_max_followup_depth"] = max_depth
    ck.cov["fanout_universes_by_initial_attempts"] = {str(k): v for k, v in sorted(by_roots.items())}
    ck.cov["fanout_universes_uncontrollable"] = n_stuck
    if replay is None and ck.thorough():
        # one ungated run per universe under the race detector
        routs, races = run_fanout([dict(c) for c in cases], race=True, mode="ungated")
        ck.cov["fanout_race_runs"] = sum(1 for o in routs if o is not None)
        if "DATA RACE" in races:
            ck.violation("data race reported by the Go race detector in the patch fan-out:\n" + races[:3000],
                         {"part": "a", "race": races[:8000]})
    ck.assumptions += ["part (a): attempts are identified by creation order (goroutine ids grow monotonically; the initial vulnerabilities are "
                       "handed to ComputePatches sorted by id, follow-up attempts are spawned in sorted id order); the attempt forest is learned "
                       "from an ungated run; the harness resolve client serialises access to resolve.LocalClient (which is not goroutine safe)"]
    ck.cov["fanout_rule"] = ("(a) PatchFanout.tla under the lead's cfgs; every arrival order (<=24 quick / <=120 thorough per universe, seeded sample beyond) of the "
                       "real relax/override ComputePatches on designed universes (2-4 initial attempts x follow-up chains x equal patches) and seeded random "
                       "universes, imposed by gating the attempts' client/matcher callbacks; non-trivial = universes with >= 2 concurrent attempts")
