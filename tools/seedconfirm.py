#!/usr/bin/env python3
"""Confirms a seeded change produced by a mutation agent and files it under /verif/seeded/<name>/:
   tools/seedconfirm.py <src dir with patch.diff, meta.json, demo/> <name> <Cxx> [<Cyy> ...]
In a scratch worktree: the patch applies and builds, the touched packages' tests (without the demo) pass,
the demo fails with the patch and passes without it; then the named checks are run against the patched worktree."""
import json, os, shutil, subprocess, sys, hashlib
src, name, props = sys.argv[1], sys.argv[2], sys.argv[3:]
meta = json.load(open(os.path.join(src, "meta.json")))
env = dict(os.environ, GOFLAGS="-mod=mod", GOPROXY="off")
wt = "/tmp/conf-" + hashlib.sha1(name.encode()).hexdigest()[:8]
subprocess.run(["git", "-C", "/repo", "worktree", "remove", "--force", wt], capture_output=True)
subprocess.run(["git", "-C", "/repo", "worktree", "add", "-q", wt, "HEAD"], check=True)
tmpd = "/tmp/conf-tmp-" + name
os.makedirs(tmpd, exist_ok=True)
env["TMPDIR"] = tmpd
rec = {}
def sh(cmd, **kw):
    return subprocess.run(cmd, shell=True, cwd=wt, env=env, capture_output=True, text=True, **kw)
try:
    patch = os.path.abspath(os.path.join(src, "patch.diff"))
    r = sh("git apply %s" % patch); rec["applies"] = r.returncode == 0
    r = sh("go build ./... && go build -tags verif ./..."); rec["builds"] = r.returncode == 0
    files = [l[6:] for l in open(patch) if l.startswith("+++ b/")]
    pkgs = sorted(set("./" + os.path.dirname(f) for f in files))
    r = sh("go test -p 2 -count=1 %s 2>&1 | grep -E '^(ok|FAIL|---)' | head -40" % " ".join(pkgs)); rec["touched_pkg_tests_with_patch"] = r.stdout.strip().splitlines()
    # demo
    demo_rel = meta["demo"]["path"]
    demo_src = None
    for root, _, fs in os.walk(os.path.join(src, "demo")):
        for f in fs:
            if f == os.path.basename(demo_rel):
                demo_src = os.path.join(root, f)
    shutil.copyfile(demo_src, os.path.join(wt, demo_rel))
    run = meta["demo"]["run"].split("   (")[0].split("  (")[0].strip()
    import re
    run = re.sub(r"^cd \S+ && ", "", run)
    r = sh(run); rec["demo_fails_with_patch"] = r.returncode != 0
    sh("git apply -R %s" % patch)
    r = sh(run); rec["demo_passes_without_patch"] = r.returncode == 0
    if r.returncode != 0:
        rec["demo_without_output"] = (r.stdout + r.stderr)[-1500:]
    os.remove(os.path.join(wt, demo_rel))
    # baseline of the touched packages without the patch
    r = sh("go test -p 2 -count=1 %s 2>&1 | grep -E '^(ok|FAIL|---)' | head -40" % " ".join(pkgs)); rec["touched_pkg_tests_without_patch"] = r.stdout.strip().splitlines()
    rec["no_new_test_failures"] = [l.split("(")[0] for l in rec["touched_pkg_tests_with_patch"] if not l.startswith("ok")] == [l.split("(")[0] for l in rec["touched_pkg_tests_without_patch"] if not l.startswith("ok")]
finally:
    subprocess.run(["git", "-C", "/repo", "worktree", "remove", "--force", wt], capture_output=True)
    shutil.rmtree(tmpd, ignore_errors=True)
# run the checks
caught = {}
for p in props:
    q = subprocess.run(["python3", "/verif/tools/seedtest.py", os.path.join(src, "patch.diff"), p], capture_output=True, text=True)
    line = [l for l in q.stdout.splitlines() if l.startswith(p + " rc=")]
    caught[p] = line[0] if line else q.stdout[-300:]
    det = [l.strip() for l in q.stdout.splitlines() if l.strip().startswith("->")]
    if det:
        caught[p + "_first"] = det[0][:300]
rec["checks"] = caught
dst = os.path.join("/verif/seeded", name)
os.makedirs(dst, exist_ok=True)
shutil.copyfile(os.path.join(src, "patch.diff"), os.path.join(dst, "patch.diff"))
if os.path.isdir(os.path.join(dst, "demo")):
    shutil.rmtree(os.path.join(dst, "demo"))
shutil.copytree(os.path.join(src, "demo"), os.path.join(dst, "demo"))
meta["confirmed_by_lead"] = rec
meta["what_was_run"] = "tools/seedconfirm.py: git apply in a scratch worktree, go build ./... (with and without -tags verif), go test of the touched packages with/without the patch, the demo with/without the patch, then tools/seedtest.py <patch> " + " ".join(props)
json.dump(meta, open(os.path.join(dst, "meta.json"), "w"), indent=1)
print(json.dumps(rec, indent=1)[:3000])

# alt-cleanup: harness binaries built against the scratch worktree
import glob as _glob
_tag = "-alt" + hashlib.sha1(os.path.abspath(wt).encode()).hexdigest()[:8]
for _f in _glob.glob("/verif/harness/bin/*" + _tag) + _glob.glob("/verif/harness/go-alt*" + _tag + "*"):
    try:
        os.remove(_f)
    except OSError:
        pass
