#!/usr/bin/env python3
"""Regenerates MANIFEST.json from tools/manifest_src.py (single source of truth)."""
import json, os, sys
sys.path.insert(0, os.path.dirname(os.path.abspath(__file__)))
from manifest_src import CHECKS, NOT_APPLICABLE, HOOK_COMMITS
V = os.path.dirname(os.path.dirname(os.path.abspath(__file__)))
m = {
 "version": 1,
 "setup_cmd": "cd /verif && cp /repo/go.sum harness/go.sum && cd harness && GOFLAGS=-mod=mod GOPROXY=off go build -tags verif -o bin/ ./cmd/... && GOFLAGS=-mod=mod GOPROXY=off go build -race -tags verif -o bin/vscan-race ./cmd/vscan",
 "hooks": {
  "guard": "verif",
  "enable": "go build -tags verif (the harness module /verif/harness replaces github.com/google/osv-scalibr with /repo)",
  "baseline_off_cmd": "cd /repo && GOFLAGS=-mod=mod GOPROXY=off go test -json -vet=off -count=1 -timeout 25m ./...",
  "source_commits": HOOK_COMMITS,
  "add_only": True,
 },
 "engines": [
  {"name": "tlc", "path": "/verif/spec", "kind_free_text": "explicit TLA+ specifications model-checked with TLC; Gen cfgs emit cases, Trace modules validate recorded traces",
   "serves_properties": [c["property_id"] for c in CHECKS]},
  {"name": "vharness", "path": "/verif/harness", "kind_free_text": "Go conformance harness: replays TLC cases into the real code, records traces from it",
   "serves_properties": [c["property_id"] for c in CHECKS]},
 ],
 "checks": [],
 "not_applicable": NOT_APPLICABLE,
 "notes": "Model-based verification with explicit TLA+ specifications; see DESIGN.md. Exit 2 = not a verdict (build/TLC failure).",
}
for c in CHECKS:
    pid = c["property_id"]
    m["checks"].append({
        "property_id": pid,
        "quick_cmd": "./check %s --tier quick" % pid,
        "thorough_cmd": "./check %s --tier thorough" % pid,
        "evidence_file": "/verif/evidence/%s.json" % pid,
        "replay_cmd_template": "./check %s --replay {path}" % pid,
        "engine": "tlc+vharness",
        "level_claimed": {"category": c["level"], "text": c["text"], "design_ref": c.get("design_ref", "DESIGN.md section 6 " + pid)},
        "level_note": c["note"],
        "technique": c["technique"],
    })
json.dump(m, open(os.path.join(V, "MANIFEST.json"), "w"), indent=1)
print("checks:", [c["property_id"] for c in CHECKS])
