#!/usr/bin/env python3
"""debug helper: python3 tools/swdebug.py <cfg> [modes]  -> runs one ScanWalk cfg through the harness and summarises mismatches"""
import sys, os, json, collections, re
sys.path.insert(0, os.path.dirname(os.path.abspath(__file__)))
import vf, scanwalk
ck = vf.Check("CDBG", "model_checking")
modes = sys.argv[2].split(",") if len(sys.argv) > 2 else ["stream/plain", "fallback/nasty", "real/nasty"]
scanwalk.run_family(ck, [sys.argv[1]], modes)
c = collections.Counter(); ex = {}
for what, rec in ck.violations:
    mm = rec.get("mismatch", ["(more)"])
    key = re.sub(r'file \S+', 'file X', mm[0]); key = re.sub(r'\d+', 'N', key)[:160]
    c[key] += 1; ex.setdefault(key, rec)
for k, v in c.most_common():
    print(v, k)
    r = ex[k]
    if "case" in r:
        print("   e.g.", json.dumps({"nodes": [(n["p"], n["k"], [(a["t"], a["n"]) for a in n["gi"]]) for n in r["case"]["nodes"]], "cfg": {k2: v2 for k2, v2 in r["case"]["cfg"].items() if v2 not in ([], False, 0, {"kind": "none", "n": 0})}, "req": r["case"]["req"], "out": r["case"]["out"]}))
        print("   expect", json.dumps(r["case"]["expect"]))
        print("   observed", json.dumps({k2: v2 for k2, v2 in r["observed"].items() if k2 != "panic"}), (r["observed"].get("panic") or "")[:1500])
print("violations", len(ck.violations), "cases", ck.cov["traces_validated_against_impl"])
