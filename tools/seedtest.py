#!/usr/bin/env python3
"""Runs checks against a seeded mutation in a scratch worktree (never in /repo):
   tools/seedtest.py <patch.diff> <Cxx> [<Cyy> ...] [--tier quick|thorough]
Prints per check: exit code and the first VIOLATION lines. Evidence/replays go to a temp dir."""
import os, subprocess, sys, tempfile, shutil, hashlib
args = [a for a in sys.argv[1:] if not a.startswith("--")]
tier = "quick"
if "--tier" in sys.argv:
    tier = sys.argv[sys.argv.index("--tier") + 1]
    args = [a for a in args if a != tier]
patch = os.path.abspath(args[0])
props = args[1:]
wt = "/tmp/mut-" + hashlib.sha1(patch.encode()).hexdigest()[:8]
subprocess.run(["git", "-C", "/repo", "worktree", "remove", "--force", wt], capture_output=True)
subprocess.run(["git", "-C", "/repo", "worktree", "add", "-q", wt, "HEAD"], check=True)
tmp = tempfile.mkdtemp(prefix="seedtest-")
try:
    r = subprocess.run(["git", "-C", wt, "apply", patch], capture_output=True, text=True)
    if r.returncode != 0:
        print("PATCH DOES NOT APPLY:", r.stderr[:500]); sys.exit(3)
    env = dict(os.environ, VERIF_REPO=wt, VERIF_EVIDENCE_DIR=tmp, VERIF_REPLAY_DIR=tmp, VERIF_TIER=tier)
    for p in props:
        q = subprocess.run(["/verif/check", p, "--tier", tier], env=env, capture_output=True, text=True, cwd="/verif")
        vio = [l for l in q.stdout.splitlines() if l.startswith("VIOLATION")]
        det = [l for l in q.stderr.splitlines() if l.startswith("  -> ")]
        print("%s rc=%d violations=%d" % (p, q.returncode, len(vio)))
        for l in det[:2]:
            print("    " + l[:400])
        if q.returncode not in (0, 1):
            print("    stderr tail:", q.stderr[-600:])
finally:
    subprocess.run(["git", "-C", "/repo", "worktree", "remove", "--force", wt], capture_output=True)
    shutil.rmtree(tmp, ignore_errors=True)
    for f in os.listdir("/verif/harness"):
        if f.startswith("go-alt") or f.startswith("go-alt"):
            pass

# alt-cleanup: harness binaries built against the scratch worktree
import glob as _glob
_tag = "-alt" + hashlib.sha1(os.path.abspath(wt).encode()).hexdigest()[:8]
for _f in _glob.glob("/verif/harness/bin/*" + _tag) + _glob.glob("/verif/harness/go-alt*" + _tag + "*"):
    try:
        os.remove(_f)
    except OSError:
        pass
