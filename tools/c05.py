#!/usr/bin/env python3
"""C05 - packages are attributed to the layer that introduced them.

TLC: LayerTrace.tla proves, on every bounded layer history, that the step-by-step transcription of
trace.PopulateLayerDetails (+ image.initializeChainLayers) attributes every package of the final view to the
chain layer carrying the index / command / diff id of the declaratively defined introducing layer (Agree),
together with the skip lemma, cache soundness, re-added => re-adding layer and ignore/empty layers never
change attribution; it emits one case per history x history alignment with the declarative expectation.
The harness (vltrace ltrace) builds every case as a real image (tar layers, OCI whiteouts, config history),
loads it with image.FromV1Image, scans it with Scanner.ScanContainer and projects Package.LayerDetails.

Outside the verdict, reported under coverage.extension_two_extractors: two extractors reading one file."""
import json, os, random, shutil, sys, tempfile, time
sys.path.insert(0, os.path.dirname(os.path.abspath(__file__)))
import vf, args

FINDING_EXT = "C05-cache-key-ignores-extractor"


def consts(cfg):
    return open(os.path.join(vf.SPEC, "cfg", cfg)).read().split("SPECIFICATION")[0].strip()


def expect_of(c, field="expect"):
    e = c.get(field)
    return e if isinstance(e, dict) else {}


class Replayer:
    def __init__(self, ck):
        self.ck = ck
        self.images = 0
        self.evals = 0
        self.nontrivial = 0
        self.missing = []
        self.bad = []        # (size, text, replay record): every mismatch; the smallest MAXREC are recorded as violations
        self.scratch = None
        if os.path.isdir("/dev/shm") and os.access("/dev/shm", os.W_OK):
            # image loading creates and removes ~10 directories/files per case: on tmpfs it is 2-3x faster
            self.scratch = tempfile.mkdtemp(prefix="vh-c05-", dir="/dev/shm")

    def close(self):
        if self.scratch:
            shutil.rmtree(self.scratch, ignore_errors=True)

    def run(self, cases, mode="pkglist", layout="flat"):
        a = ["-a", "mode=" + mode, "-a", "layout=" + layout]
        env = None
        t0 = time.time()
        if self.scratch:
            a = ["-tmp", self.scratch] + a
            env = {"TMPDIR": self.scratch}
        obs = vf.run_harness("vltrace", "ltrace", cases, args=a, timeout=3000, env_extra=env)
        if len(obs) != len(cases):
            raise vf.NotAVerdict("harness returned %d of %d cases" % (len(obs), len(cases)))
        self.images += len(cases)
        vf.log("[scan] %d images (%s/%s) in %.1fs" % (len(cases), mode, layout, time.time() - t0))
        return obs

    def judge(self, cases, obs, label, mode, layout):
        """C05 verdict on every replayed case: each reported package carries exactly the details of its introducing layer."""
        ck = self.ck
        for o in obs:
            c = cases[o["i"]]
            exp = expect_of(c)
            rec = {"case": c, "mode": mode, "layout": layout, "observed": o, "from": label}
            if "panic" in o:
                self.bad.append((0, "ScanContainer panicked on a legal image (%s): %s" % (label, o["panic"][:300]), rec))
                continue
            if "error" in o:
                raise vf.NotAVerdict("harness could not build/scan case %s: %s" % (json.dumps(c)[:400], o["error"]))
            got = o["obs"]
            self.evals += len(exp)
            if c.get("nontrivial"):
                self.nontrivial += 1
            bad = []
            for k in sorted(got):
                if k not in exp:
                    bad.append("%s is reported (with %s) although the final image view does not contain it" % (k, got[k]))
                elif got[k] != exp[k]:
                    diff = [f for f in ("idx", "cmd", "layer") if got[k].get(f) != exp[k][f]] or ["details"]
                    bad.append("%s carries %s, its introducing layer carries %s (differs in %s)"
                               % (k, json.dumps(got[k], sort_keys=True), json.dumps(exp[k], sort_keys=True), "/".join(diff)))
            miss = [k for k in exp if k not in got]
            if bad:
                self.bad.append((len(c["layers"]) * 100 + len(json.dumps(c["layers"])) // 10,
                                 "wrong layer attribution [%s, history=%s, %s/%s]: %s; history: %s"
                                 % (label, c["history"], mode, layout, "; ".join(bad), describe(c)), rec))
            elif miss:
                self.missing.append((label, c, miss))


MAXREC = 25


def flush(ck, rp):
    """Registers the smallest witnesses as violations (one replay file each); the total is kept in the evidence."""
    rp.bad.sort(key=lambda t: (t[0], t[1]))
    for k, (_, text, rec) in enumerate(rp.bad[:MAXREC]):
        if k == 0 and len(rp.bad) > 1:
            text += " [smallest of %d mismatching scans]" % len(rp.bad)
        ck.violation(text, rec)
    ck.cov["mismatching_scans"] = len(rp.bad)


def describe(c):
    out = []
    for l in c["layers"]:
        if l["empty"]:
            out.append("empty")
        elif not isinstance(l["ops"], dict) or not l["ops"]:
            out.append("ignore")
        else:
            out.append(",".join("%s:%s%s" % (f, o["k"], "{" + " ".join(o["pk"]) + "}" if o["k"] == "write" else "")
                                for f, o in sorted(l["ops"].items())))
    return " | ".join(out)


def extension(ck, rp):
    """Two extractors on one file. Not part of the C05 verdict (see evidence.coverage.extension_note)."""
    cfg = "LayerTrace-ext2-emit.cfg"
    a = vf.tlc("LayerTrace", "LayerTrace-ext2-asbuilt.cfg", workers=4, collect=False, timeout=300)
    i = vf.require_ok(vf.tlc("LayerTrace", "LayerTrace-ext2-ideal.cfg", workers=8, collect=False, timeout=600), "LayerTrace-ext2-ideal.cfg")
    r = vf.require_ok(vf.tlc("LayerTrace", cfg, workers=8, timeout=600), cfg)
    cases = r.cases
    obs = rp.run(cases, mode="two")
    agree = deviate = predicted = unexplained = 0
    witness = None
    for o in obs:
        c = cases[o["i"]]
        if "obs" not in o:
            unexplained += 1
            continue
        got, exp, asb = o["obs"], expect_of(c), expect_of(c, "asbuilt")
        if got == exp:
            agree += 1
            continue
        deviate += 1
        if got == asb:
            predicted += 1
        else:
            unexplained += 1
        if witness is None or len(json.dumps(c["layers"])) < len(json.dumps(witness["case"]["layers"])):
            witness = {"case": c, "history": describe(c), "observed": got, "required_by_declarative_reading": exp,
                       "predicted_by_asbuilt_model": asb}
    ck.cov["extension_two_extractors"] = {
        "cfg": cfg, "constants": consts(cfg), "cases": len(cases), "agree_with_declarative": agree,
        "deviate_from_declarative": deviate, "deviations_predicted_by_asbuilt_model": predicted,
        "unexplained": unexplained, "witness": witness,
        "model_level": {"asbuilt_cfg_violates": a.violated, "repaired_key_cfg_states": i.distinct,
                        "repaired_key_cfg_holds": i.ok}}
    ck.cov["extension_note"] = (
        "OUTSIDE the C05 verdict. C05 quantifies over layer histories of package-list files (several packages per file, "
        "packages sharing a file) scanned by the file's extractor; which extractors are configured is not part of its "
        "quantifier. With two extractors that both report packages from ONE file, PopulateLayerDetails' extraction cache "
        "(keyed by <location, layer index> only) hands the second extractor the first extractor's packages, so the second "
        "extractor's packages are attributed to the last layer that rewrote the file. LayerTrace.tla reproduces this with "
        "TwoExtractors=TRUE, KeyByExtractor=FALSE (Agree violated) and shows that keying the cache by extractor repairs it.")
    if a.violated != "Agree":
        vf.log("[ext] note: as-built two-extractor cfg no longer violates Agree at model level (%s)" % a.violated)
    if deviate and not ck.known_finding(FINDING_EXT, "second extractor's packages attributed to the last layer that rewrote the file"):
        # repaired in /repo (the cache is keyed by extractor): a deviation is a regression of the statement of C05
        ck.violation("two extractors on one file: a package is not attributed to the layer that introduced it: " + json.dumps(witness)[:600],
                     {"extension": "two_extractors", "witness": witness})
    if deviate:
        vf.log("[ext] two extractors on one file: %d of %d histories deviate from the declarative attribution "
               "(%d predicted by the as-built model, %d unexplained); outside the C05 verdict" % (deviate, len(cases), predicted, unexplained))
    return len(cases)


def main():
    a = args.parse()
    ck = vf.Check("C05", "model_checking", tier=a.tier, seed=a.seed)
    rp = Replayer(ck)
    try:
        return body(a, ck, rp)
    finally:
        rp.close()


def body(a, ck, rp):
    if a.replay:
        rec = json.load(open(a.replay))["replay"]
        cases = [rec["case"]]
        obs = rp.run(cases, mode=rec.get("mode", "pkglist"), layout=rec.get("layout", "flat"))
        rp.judge(cases, obs, "replay", rec.get("mode", "pkglist"), rec.get("layout", "flat"))
        flush(ck, rp)
        vf.log("[replay] observed %s expected %s" % (json.dumps(obs[0].get("obs"), sort_keys=True), json.dumps(expect_of(cases[0]), sort_keys=True)))
        ck.count(rp.evals)
        ck.cov["traces_validated_against_impl"] = rp.images
        return ck.finish()

    rnd = random.Random(ck.seed)
    T = ck.thorough()
    # 0. sanity: the property's antecedent (removed and re-added) is reachable
    s = vf.tlc("LayerTrace", "LayerTrace-sanity.cfg", workers=2, collect=False, timeout=120)
    if s.violated != "NoReAdd":
        raise vf.NotAVerdict("sanity invariant not violated: vacuous model")

    # 1. model only: PopulateLayerDetails as actions (any package order, invariants at every step); larger bounds
    mc = ["LayerTrace-step.cfg", "LayerTrace-step2f.cfg"]
    if T:
        mc += ["LayerTrace-1f-mc6.cfg", "LayerTrace-2f-mc4.cfg"]
    for c in mc:
        r = vf.require_ok(vf.tlc("LayerTrace", c, collect=False, timeout=2400), c)
        ck.add_tlc(c, r, consts(c))

    # 2. exhaustive replay cfgs
    plan = []   # (cfg, selector)
    if T:
        plan = [("LayerTrace-1f-quick.cfg", None), ("LayerTrace-1f.cfg", lambda c: c["n"] == 5 and rnd.random() < 0.5), ("LayerTrace-2f.cfg", None)]
    else:
        # quick: every history of <= 4 entries with a matching config history, every history of <= 3 entries under
        # every alignment, and seeded samples of the rest
        def sel1(c):
            return c["history"] == "match" or c["n"] <= 3 or rnd.random() < 0.15
        def sel2(c):
            return c["n"] <= 2 or rnd.random() < 0.25
        plan = [("LayerTrace-1f-quick.cfg", sel1), ("LayerTrace-2f-quick.cfg", sel2)]
    pool = []
    exhaustive_rules = []
    for cfg, sel in plan:
        r = vf.require_ok(vf.tlc("LayerTrace", cfg, timeout=2400), cfg)
        ck.add_tlc(cfg, r, consts(cfg))
        cases = r.cases if sel is None else [c for c in r.cases if sel(c)]
        ck.cov["cfgs"][-1]["cases_replayed"] = len(cases)
        obs = rp.run(cases)
        rp.judge(cases, obs, cfg, "pkglist", "flat")
        # the same images with "./"-spelled entry names, and (aligned history only) with byte-identical layers
        # wherever two layers do the same (equal diff ids at different positions, e.g. a repeated COPY)
        obs = rp.run(cases, layout="flat,dotslash")
        rp.judge(cases, obs, cfg, "pkglist", "flat,dotslash")
        aligned = [c for c in cases if c["history"] == "match"]
        if aligned:
            obs = rp.run(aligned, layout="flat,sameid")
            rp.judge(aligned, obs, cfg, "pkglist", "flat,sameid")
        pool += cases
        for c in cases[:: max(1, len(cases) // 2)][:2]:
            if c.get("nontrivial"):
                ck.sample({"case": c, "history": describe(c)})
        vf.log("[replay] %s: %d of %d cases scanned, %d mismatches so far" % (cfg, len(cases), len(r.cases), len(rp.bad)))

    # 3. seeded random long histories (TLC simulation of the same spec, all invariants evaluated on every state):
    #    dense (every layer may rewrite every file) and sparse (a layer touches at most one file)
    simcases, seen = [], set()
    for cfg, ntr in (("LayerTrace-sim.cfg", 1500 if T else 250), ("LayerTrace-sim-sparse.cfg", 3000 if T else 500)):
        sim = vf.require_ok(vf.tlc("LayerTrace", cfg, simulate="num=%d" % ntr, depth=9, seed=ck.seed,
                                   timeout=1200, workers=8), cfg)     # num is per worker
        mine = []
        for c in sim.cases:
            k = vf.canon(c)
            if k not in seen:
                seen.add(k)
                mine.append(c)
        simcases += mine
        ck.cov["cfgs"].append({"cfg": cfg, "mode": "simulate", "seed": ck.seed, "constants": consts(cfg),
                               "cases_emitted": len(sim.cases), "distinct_cases": len(mine), "wall_s": round(sim.wall, 1),
                               "entries_histogram": {str(n): sum(1 for c in mine if c["n"] == n) for n in range(1, 7)}})
        vf.log("[tlc] %s (simulate, seed %d): %d distinct cases, %.1fs" % (cfg, ck.seed, len(mine), sim.wall))
    obs = rp.run(simcases, layout="deep")
    rp.judge(simcases, obs, "simulated histories seed %d" % ck.seed, "pkglist", "deep")
    for c in simcases[::-1]:
        if c.get("nontrivial") and c["n"] == 6 and c["history"] == "match":
            ck.sample({"case": c, "history": describe(c)})
            break

    # 4. the same binding through the real dpkg extractor (status + status.d files)
    dp = vf.stratified_sample([c for c in pool if c.get("nontrivial")], 6000 if T else 1200, ck.seed) + \
        vf.stratified_sample(simcases, 3000 if T else 600, ck.seed + 1)
    obs = rp.run(dp, mode="dpkg")
    rp.judge(dp, obs, "dpkg sample", "dpkg", "flat")
    ck.cov["cases_replayed_dpkg"] = len(dp)

    # 5. extension (flagged separately, never a C05 verdict)
    next_ = extension(ck, rp)

    flush(ck, rp)
    if rp.missing and not ck.violations:
        lab, c, miss = rp.missing[0]
        raise vf.NotAVerdict("%d scans did not report packages of the final view (binding problem, not C05): e.g. %s misses %s in %s"
                             % (len(rp.missing), lab, miss, json.dumps(c)[:500]))
    ck.count(rp.evals)
    ck.cov["distinct_nontrivial"] = rp.nontrivial
    ck.cov["traces_validated_against_impl"] = rp.images - next_
    ck.cov["cases_replayed"] = rp.images - next_
    ck.cov["extension_cases_replayed"] = next_
    ck.cov["exhaustive"] = True
    ck.cov["rule"] = (
        "every history reachable in LayerTrace.tla under the cfg constants: 1..MaxLayers entries, each an empty layer or a layer that "
        "per file ignores / deletes (only an existing file) / writes any subset of the packages; x every listed alignment of the config "
        "history (match, missing = no history, short = first layer's entry missing, long = one non-empty entry too many). TLC checks all "
        "invariants on all of them; replayed as real images: " +
        ("all cases of LayerTrace-1f-quick (<=4 entries, 4 alignments), a seeded half of the 5-entry cases of LayerTrace-1f, all of LayerTrace-2f "
         "(<=3 entries, 4 alignments)"
         if T else
         "all <=4-entry one-file histories with matching history, all <=3-entry ones under every alignment, all <=2-entry two-file "
         "histories, seeded 15%/25% samples of the rest") +
        "; plus seeded TLC-simulated histories (dense and sparse) of up to 6 entries over 2 files x 3 packages; plus a seeded sample re-run through the real "
        "dpkg extractor. evaluations = package attributions compared; non-trivial = histories where some package's introducing layer is "
        "not the first layer that wrote its file.")
    ck.cov["not_explored"] = [
        "packages with several locations, symlinked or hard-linked list files, opaque whiteouts / directory whiteouts covering the file "
        "(C04 owns the overlay), files exceeding size limits, extraction errors during re-extraction (the code then attributes to layer 0)",
        "histories longer than 6 entries; more than 2 files / 3 package identities",
        "InBaseImage is not compared",
        "two extractors reporting packages from one file: observed and reported under extension_two_extractors, not judged"]
    ck.assumptions += [
        "when the config history does not describe the layers (no history, too few or too many non-empty entries) the required index is "
        "the position among the image's layers and the required command is empty: nothing relates a history entry to a layer then",
        "an empty layer is a history entry with empty_layer=true; the required index counts it when the history matches",
        "the chain layers' file systems equal the OCI overlay for these images (files, whiteouts of files): that is C04",
        "a delete + write of one file in one layer is rendered as the written file only; whiteouts only for files the lower view has",
        "every tar also holds an unrelated file etc/layer-<n> so that diff ids are distinct and identify the tar",
        "image scratch directories live on /dev/shm when it is writable (same code path, faster mkdir/unlink)"]
    return ck.finish()


vf.main_wrapper(main)
