#!/usr/bin/env python3
"""C08 - scan results depend only on content, not on enumeration order or root count."""
import sys, os
sys.path.insert(0, os.path.dirname(os.path.abspath(__file__)))
import vf, swprop
vf.main_wrapper(lambda: swprop.run(
    "C08", ["ScanWalk-F8-order.cfg", "ScanWalk-F8-rootsize.cfg", "ScanWalk-F8-gitorder.cfg", "ScanWalk-F8-linkorder.cfg"], [], ["ScanWalk-F8-anyorder.cfg"],
    ["stream/plain", "fallback/nasty", "real/plain", "wide/plain"],
    "every tree (<= 4 nodes of the 10-slot universe) x extractor 'required' sets x all 6 listing-order codes of every directory x 1..3 scan roots (and, one root, x .gitignore files and patterns), "
    "replayed through scalibr.Scan with the in-memory FS listing entries in the prescribed order; the expectation is order-free (declarative) and TLC "
    "additionally checks it under fully nondeterministic listing (Perms={0}); every extraction also emits a package tying on name and version so the "
    "3rd/4th sort keys decide; non-trivial = at least one Extract call expected",
    ["Go map-iteration order is sampled by the repeated runs only", "findings order (decided by C20's pipeline check)"],
    ["each scan root holds the same tree; packages are tagged with the root they came from"]))
