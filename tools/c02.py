#!/usr/bin/env python3
"""C02 - no file content can crash or hang a built-in extractor.

(a) robustness (this file): MutationPlan.tla is a bounded grammar of structure-aware mutations written as a state
machine; TLC enumerates every plan (depth <= 1 over the fine alphabet, depth 2 over the coarse one) and emits it as a
case. The Go side (vmut mutate) takes the product with every offline built-in filesystem extractor, every fixture
<= 256 KiB under its testdata and the production paths its FileRequired accepts, applies the plan and calls the REAL
Extract in a child process under recover + watchdog (10 s, confirmed only if 100 s also pass) + allocation budget
(1 GiB live heap+stacks above the level before the call). The specification admits one outcome class, "Returned";
a Panic (recovered or fatal to the process), a confirmed Timeout, an OOM or an inventory the engine cannot consume
(nil entry; ToPURL panics) is a violation, identified by <extractor, fixture, plan>, with the reproducing bytes in the
replay record. Also: archive-member plans, companion-file units and TLC-enumerated include graphs (IncludeGraph.tla).
quick: all plans of depth <= 1 and a VERIF_SEED-stratified sample of the depth-2 plans per <extractor, fixture, path>;
thorough: all plans.
(b) containment: tools/c02_b.py (optional import).
Level: exploration (not model checking)."""
import base64, hashlib, json, os, re, shutil, sys, tempfile
sys.path.insert(0, os.path.dirname(os.path.abspath(__file__)))
import vf, args

TOML_EX = ["python/pdmlock", "python/poetrylock", "python/uvlock", "rust/cargolock", "rust/cargotoml"]

# Finding classes: predicates over <extractor, plan, outcome class, stack>. A class suppresses nothing unless
# known_findings.json lists its id as open; anything outside every listed class is a violation.
# `expensive`: scenarios of the class take seconds each; when the class is LISTED the harness evaluates only
# `witnesses` of them per extractor (expected failures), otherwise all of them.
CLASSES = [
    {"id": "C02-toml-quadratic-nesting", "extractors": TOML_EX, "outcomes": ["OOM", "Timeout"], "stack": None,
     "ops": [{"op": "Nest", "x": ["toml-inline", "toml-table"], "min_i": 10001}], "expensive": True, "witnesses": 3,
     "prefer": ["Nest(toml-inline,10001,bare)"]},
    {"id": "C02-macapps-plist-parser", "extractors": ["os/macapps"], "outcomes": ["Panic", "OOM", "Timeout"], "stack": r"github\.com/groob/plist",
     "ops": [], "expensive": True, "witnesses": 12,
     "prefer": ["HeaderEdit(tail,word4,zero)", "Replace(open->nul,all)", "HeaderEdit(head,word3,zero)"]},
    {"id": "C02-containerd-bbolt-corrupt-db", "extractors": ["containers/containerd"], "outcomes": ["Panic"], "stack": r"go\.etcd\.io/bbolt",
     "ops": [], "expensive": False},
    {"id": "C02-dotnetpe-saferwall-alloc", "extractors": ["dotnet/pe"], "outcomes": ["OOM"], "stack": None, "ops": [], "expensive": False},
    {"id": "C02-rpm-rpmdb-panic", "extractors": ["os/rpm"], "outcomes": ["Panic"], "stack": r"go-rpmdb/pkg\.",
     "ops": [], "expensive": False},
]


def plan_matches(cls, plan):
    if not cls["ops"]:
        return True
    for o in plan["ops"]:
        for k in cls["ops"]:
            if k["op"] == o["op"] and o["i"] >= k.get("min_i", 0) and (not k.get("x") or o["x"] in k["x"]):
                return True
    return False


def class_of(f):
    for c in CLASSES:
        if f["ex"] not in c["extractors"] or f["class"] not in c["outcomes"] or not plan_matches(c, f["plan"]):
            continue
        if f["class"] == "Panic" and c["stack"] and not re.search(c["stack"], f["detail"]):
            continue
        return c
    return None


def signature(f):
    """first frame of the panicking stack that is not the runtime or the harness"""
    if f["class"] != "Panic":
        return f["class"]
    for line in f["detail"].splitlines():
        if line.startswith(("\t", " ")) or "(" not in line:
            continue
        fn = line.rsplit("(", 1)[0]
        if fn.startswith(("runtime.", "runtime/", "main.", "panic", "verif/", "goroutine", "created by", "sync.", "syscall.")) or " " in fn:
            continue
        return fn
    return f["detail"].splitlines()[0][:120] if f["detail"] else "?"


def part_a(ck, replay):
    work = tempfile.mkdtemp(prefix="c02-")
    try:
        plans_file = os.path.join(work, "plans.ndjson")
        if replay:
            with open(plans_file, "w") as fh:
                fh.write(json.dumps(replay["plan"]) + "\n")
            nplans = 1
            hargs = ["-a", "ex=" + replay["ex"], "-a", "fixture=" + replay["fixture"], "-a", "path=" + replay["path"]]
            if replay.get("target"):
                hargs += ["-a", "target=" + replay["target"]]
        else:
            s = vf.tlc("MutationPlan", "MutationPlan-sanity.cfg", workers=2, collect=False, timeout=120)
            if s.violated != "SanityDepth2":
                raise vf.NotAVerdict("sanity invariant not violated: vacuous model")
            r = vf.require_ok(vf.tlc("MutationPlan", "MutationPlan.cfg", timeout=600, case_file=plans_file), "MutationPlan.cfg")
            ck.add_tlc("MutationPlan.cfg", r, " ".join(l.strip() for l in open(os.path.join(vf.SPEC, "cfg", "MutationPlan.cfg")).read().split("SPECIFICATION")[0].splitlines() if l.strip() and not l.startswith("\\*")))
            nplans = len(r.cases)
            if nplans < 400:
                raise vf.NotAVerdict("only %d plans emitted" % nplans)
            if ck.thorough():
                hargs = ["-a", "sample1=0", "-a", "sample2=0", "-a", "paths=4", "-a", "cap=os/rpm:0:400", "-a", "deadline_s=1300"]
                ck.cov["not_explored"].append("(a) os/rpm (each corrupt Berkeley DB costs its 1 s time bound): all depth-1 plans, 400 sampled depth-2 plans per <fixture, path>")
            else:
                hargs = ["-a", "sample1=0", "-a", "sample2=150", "-a", "paths=2", "-a", "cap=os/rpm:120:40", "-a", "deadline_s=150"]
                ck.cov["not_explored"].append("(a) quick tier: depth-2 plans sampled, 150 per <extractor, fixture, path> (os/rpm: 120 depth-1 and 40 depth-2 plans, each corrupt Berkeley DB costs its 1 s time bound)")
        listed = [c for c in CLASSES if c["id"] in ck.known]
        kf = os.path.join(work, "known.json")
        with open(kf, "w") as fh:
            json.dump([{"id": c["id"], "extractors": c["extractors"], "ops": c["ops"], "witnesses": c["witnesses"], "prefer": c.get("prefer", [])}
                       for c in listed if c["expensive"]], fh)
        hargs += ["-a", "seed=%d" % ck.seed, "-a", "repo=" + vf.REPO, "-a", "known=" + kf]
        out = vf.run_harness("vmut", "mutate", None, args=hargs, infile=plans_file, timeout=3400)
        plans = [json.loads(l) for l in open(plans_file) if l.strip()]
        meta, findings, not_run = None, [], 0
        evals = changed = errs = with_pkgs = 0
        slow = 0
        unconfirmed = []
        abandoned = 0
        per_unit = {}
        for o in out:
            if "harness_fatal" in o:
                raise vf.NotAVerdict("harness: " + o["harness_fatal"][:1500])
            if o.get("slow_unconfirmed"):
                unconfirmed.append("%s | %s | %s" % (o["ex"], o["fixture"].split("testdata/")[-1], o["plan_str"]))
                continue
            if o.get("summary"):
                evals += o["n"]; changed += o["changed"]; errs += o["errs"]; with_pkgs += o["with_pkgs"]; slow += len(o.get("slow") or [])
                per_unit[o["u"]] = per_unit.get(o["u"], 0) + o["n"]
                abandoned += o.get("abandoned", 0)
            elif o.get("finding"):
                findings.append(o)
            elif o.get("not_run"):
                not_run += 1
            elif "meta" in o:
                meta = o["meta"]
        if meta is None:
            raise vf.NotAVerdict("harness wrote no meta record (dead driver)")
        if evals == 0:
            raise vf.NotAVerdict("no evaluation was executed")
        # findings also count as evaluations (they are not in the summaries' Returned tallies but are in n)
        units = {u["u"]: u for u in meta["unit_list"]}

        # ---- verdicts ----
        by_class, other = {}, {}
        for f in findings:
            if f["class"] not in ("Panic", "Timeout", "OOM", "BadInventory"):
                raise vf.NotAVerdict("unknown outcome class %r" % f["class"])
            c = class_of(f)
            if c is not None:
                by_class.setdefault(c["id"], []).append(f)
            else:
                other.setdefault((f["ex"], f["class"], signature(f)), []).append(f)

        def record(f):
            return {"part": "a", "ex": f["ex"], "fixture": f["fixture"], "path": f["path"], "target": f.get("target") or "", "seed": f.get("seed") or "",
                    "plan": f["plan"], "plan_str": f["plan_str"],
                    "class": f["class"], "detail": f["detail"][:6000], "bytes_b64": f.get("bytes_b64"), "size": f["size"], "sha256": f["sha256"]}

        def triples(fs, n=25):
            return ["%s | %s%s | %s" % (f["ex"], f["fixture"].split("testdata/")[-1], (" + companion " + f["target"]) if f.get("target") else "", f["plan_str"]) for f in fs[:n]]

        for cid, fs in sorted(by_class.items()):
            fs.sort(key=lambda f: ("bytes_b64" not in f, f["size"], len(f["plan"]["ops"])))
            w = fs[0]
            txt = "%d witnesses, e.g. <%s, %s, %s> -> %s" % (len(fs), w["ex"], w["fixture"].split("testdata/")[-1], w["plan_str"], w["class"])
            if not ck.known_finding(cid, txt):
                rec = record(w)
                rec["other_witnesses"] = triples(fs[1:])
                ck.violation("%s (class not listed in known_findings.json): %s: %s" % (cid, txt, w["detail"].splitlines()[0][:200] if w["detail"] else ""), rec)
        for (ex, cls, sig), fs in sorted(other.items()):
            fs.sort(key=lambda f: ("bytes_b64" not in f, f["size"], len(f["plan"]["ops"])))
            w = fs[0]
            rec = record(w)
            rec["other_witnesses"] = triples(fs[1:])
            ck.violation("Extract did not return: %s in %s at %s; %d witness(es), smallest: fixture %s at path %s%s, plan %s (%d bytes): %s"
                         % (cls, ex, sig, len(fs), w["fixture"], w["path"], (" with the plan applied to its companion " + w["target"]) if w.get("target") else "",
                            w["plan_str"], w["size"], w["detail"].splitlines()[0][:300] if w["detail"] else ""), rec)

        # ---- coverage ----
        ck.count(evals)
        ck.cov["distinct_nontrivial"] += changed
        ck.cov["traces_validated_against_impl"] += evals
        ck.cov["a_plans"] = nplans
        ck.cov["a_units_extractor_fixture_path"] = meta["units"]
        ck.cov["a_evaluations"] = evals
        ck.cov["a_distinct_triples_with_changed_bytes"] = changed
        ck.cov["a_returned_error"] = errs
        ck.cov["a_returned_with_packages"] = with_pkgs
        ck.cov["a_slower_than_10s_but_returned"] = slow
        ck.cov["a_outcomes_not_returned"] = {k: len(v) for k, v in by_class.items()}
        ck.cov["a_outcomes_not_returned"]["outside every class"] = sum(len(v) for v in other.values())
        ck.cov["a_extractors_covered"] = [{"extractor": c["extractor"], "fixtures": c["fixtures"], "fixtures_over_256k": c["fixtures_over_256k"], "paths": c["paths"]} for c in meta["covered"]]
        ck.cov["a_extractors_skipped"] = meta["skipped"]
        ck.cov["a_skipped_scenarios_of_listed_classes"] = meta.get("skipped_known_class") or {}
        ck.cov["a_companion_units"] = meta.get("companion_units", 0)
        ck.cov["a_companions_without_a_seed"] = meta.get("companions_without_seed") or []
        ck.cov["a_archive_member_plans_not_applicable"] = meta.get("member_plans_not_applicable", 0)
        if unconfirmed:
            ck.cov["a_slow_unconfirmed"] = unconfirmed[:50]
            ck.cov["not_explored"].append("(a) %d evaluations ran into the 10 s limit after their extractor had already used its 3 confirmations (100 s each); they are listed, not judged" % len(unconfirmed))
        if abandoned:
            ck.cov["not_explored"].append("(a) %d evaluations of extractors that had already hung 12 times in this run were not made" % abandoned)
        if not_run:
            ck.cov["not_explored"].append("(a) %d of the jobs were not started before the time budget of the tier ran out" % not_run)
        for cid, n in (meta.get("skipped_known_class") or {}).items():
            ck.cov["not_explored"].append("(a) %d scenarios inside the listed finding class %s were not evaluated (only a few witnesses are)" % (n, cid))
        big = sum(c["fixtures_over_256k"] for c in meta["covered"])
        if big:
            ck.cov["not_explored"].append("(a) %d fixtures larger than 256 KiB" % big)
        if not replay:
            step = max(1, len(meta["unit_list"]) // 4)
            for u in meta["unit_list"][::step][:4]:
                ck.sample({"extractor": u["ex"], "fixture": u["fixture"], "path": u["path"], "plans_evaluated": u["plans"],
                           "example_plan": plans[(u["u"] * 37) % len(plans)]})
            if len(meta["covered"]) < 50:
                raise vf.NotAVerdict("only %d extractors covered" % len(meta["covered"]))
    finally:
        shutil.rmtree(work, ignore_errors=True)


def part_a_graphs(ck, replay):
    """multi-file include graphs of the requirements extractor (IncludeGraph.tla)"""
    if replay:
        cases = [replay["case"]]
    else:
        s = vf.tlc("IncludeGraph", "IncludeGraph-sanity.cfg", workers=2, collect=False, timeout=120)
        if s.violated != "SanityCycle":
            raise vf.NotAVerdict("IncludeGraph sanity invariant not violated: vacuous model")
        s = vf.tlc("IncludeGraph", "IncludeGraph-devsanity.cfg", workers=2, collect=False, timeout=120)
        if s.violated != "Bounded":
            raise vf.NotAVerdict("IncludeGraph: the deviation does not make the walk unbounded on the model")
        r = vf.require_ok(vf.tlc("IncludeGraph", "IncludeGraph.cfg", timeout=600), "IncludeGraph.cfg")
        ck.add_tlc("IncludeGraph.cfg", r, "NF = 3")
        cases = r.cases
        if len(cases) != 4096:
            raise vf.NotAVerdict("IncludeGraph emitted %d cases, expected 4096" % len(cases))
    obs = vf.run_harness("vmut", "incgraph", cases, args=["-a", "repo=" + vf.REPO], timeout=1500)
    seen, match, cyc, not_run = set(), 0, 0, 0
    bad = {}
    for o in obs:
        if "harness_fatal" in o:
            raise vf.NotAVerdict("harness: " + o["harness_fatal"][:1500])
        c = cases[o["i"]]
        seen.add(o["i"])
        if o["class"] == "NotRun":
            not_run += 1
            continue
        if o["class"] == "Slow":
            continue   # beyond 10 s after the 3 confirmations (100 s each) were used
        if o["class"] in c["allowed"]:
            if o.get("pkgs") == len(c["expect"]["reachable_with_pkg"]):
                match += 1
            continue
        bad.setdefault(o["class"], []).append((c, o))
    if len(seen) != len(cases):
        raise vf.NotAVerdict("incgraph returned %d of %d cases" % (len(seen), len(cases)))
    for cls, lst in sorted(bad.items()):
        lst.sort(key=lambda x: sum(len(f["includes"]) + f["pkg"] for f in x[0]["files"]))
        c, o = lst[0]
        ck.violation("Extract of %s did not return on an include graph: %s; %d graph(s), smallest: %s: %s"
                     % (c["ex"], cls, len(lst), json.dumps(o.get("files")), (o.get("detail") or "").splitlines()[0][:300]),
                     {"part": "a", "kind": "incgraph", "case": c, "class": cls, "files": o.get("files"), "detail": (o.get("detail") or "")[:6000]})
    for c in cases:
        fs = c["files"]
        if any(not fs[j - 1]["pkg"] and j != 1 for f in fs for j in f["includes"]):
            cyc += 1
    ck.count(len(cases))
    ck.cov["distinct_nontrivial"] += cyc
    ck.cov["traces_validated_against_impl"] += len(cases)
    if not_run:
        if not bad:
            raise vf.NotAVerdict("incgraph stopped early without a finding")
        ck.cov["not_explored"].append("(a) %d include graphs were not started after 8 graphs had already failed" % not_run)
    ck.cov["a_include_graphs"] = len(cases)
    ck.cov["a_include_graphs_with_an_include_of_a_package_less_file"] = cyc
    ck.cov["a_include_graphs_package_count_equals_reachable_set"] = match


def part_a_budget(ck, replay):
    """bounded memory of the java/archive extractor (ArchiveBudget.tla): real jars with nested valid / invalid archives
    extracted under budgets around every prefix sum; the recorded facts are judged by TLC"""
    import tempfile, shutil
    for cfg, inv in (("ArchiveBudget-sanity.cfg", "GSanity"), ("ArchiveBudget-dev.cfg", "GDevBounded")):
        s = vf.tlc("ArchiveBudget", cfg, workers=2, collect=False, timeout=120)
        if s.violated != inv:
            raise vf.NotAVerdict("ArchiveBudget: %s not violated under %s (vacuous model)" % (inv, cfg))
    r = vf.require_ok(vf.tlc("ArchiveBudget", "ArchiveBudget-gen.cfg", workers=4, collect=False, timeout=600), "ArchiveBudget-gen.cfg")
    ck.add_tlc("ArchiveBudget-gen.cfg", r, "MaxEntries = 4 Sizes = {1,2,3} Budgets = {0..7,9,12} Tops = {1,3}")
    outs = vf.run_harness("vmut", "archivebudget", [], timeout=900)
    facts = sorted(outs, key=lambda f: f["n"])
    if len(facts) < 1000 or [f["n"] for f in facts] != list(range(1, len(facts) + 1)):
        raise vf.NotAVerdict("archivebudget produced %d (misnumbered?) facts" % len(facts))
    if replay is not None:
        facts = [f for f in facts if f["sizes"] == replay["fact"]["sizes"] and f["valid"] == replay["fact"]["valid"] and f["budget"] == replay["fact"]["budget"]]
        for i, f in enumerate(facts):
            f["n"] = i + 1
    tmpd = tempfile.mkdtemp(prefix="vc02ab-")
    try:
        fp = os.path.join(tmpd, "facts.ndjson")
        with open(fp, "w") as fh:
            for f in facts:
                fh.write(json.dumps(f) + "\n")
        os.environ["VERIF_FACTS"] = fp
        r = vf.tlc("ArchiveBudget", "ArchiveBudget-facts.cfg", workers=4, collect=False, timeout=900)
        ck.add_tlc("ArchiveBudget-facts.cfg", r, "facts=%d (VERIF_FACTS)" % len(facts))
        if not r.ok:
            if r.violated not in ("FactConforms", "FactBounded"):
                vf.log(r.output_tail[-3000:])
                raise vf.NotAVerdict("ArchiveBudget facts cfg failed without naming a clause")
            rep = vf.tlc("ArchiveBudget", "ArchiveBudget-report.cfg", workers=4, timeout=900)
            if not rep.ok or not rep.cases:
                vf.log(rep.output_tail[-3000:])
                raise vf.NotAVerdict("ArchiveBudget report cfg failed")
            bad = sorted(rep.cases, key=lambda c: c["n"])
            for c in bad[:6]:
                f = facts[c["n"] - 1]
                ck.violation("java/archive does not keep to its byte budget: nested archives of %s bytes (valid: %s) in a %d-byte jar, MaxOpenedBytes %d: "
                             "reported memory-limit error=%s, UncompressedBytes=%d, nested packages=%d; the specification says %s [%d fact(s) fail]"
                             % (f["sizes"], f["valid"], f["top"], f["budget"], f["memlim"], f["uncompressed"], f["nested_pkgs"], c["want"], len(bad)),
                             {"part": "a", "kind": "archivebudget", "fact": f, "want": c["want"]})
    finally:
        shutil.rmtree(tmpd, ignore_errors=True)
    ck.count(len(facts))
    ck.cov["traces_validated_against_impl"] += len(facts)
    ck.cov["a_archive_budget_facts"] = len(facts)


def main():
    a = args.parse()
    ck = vf.Check("C02", "exploration", tier=a.tier, seed=a.seed)
    replay = None
    if a.replay:
        replay = json.load(open(a.replay))["replay"]
    if replay is None or (replay.get("part") == "a" and replay.get("kind") not in ("incgraph", "archivebudget")):
        part_a(ck, replay)
    if replay is None or (replay.get("part") == "a" and replay.get("kind") == "archivebudget"):
        part_a_budget(ck, replay)
    if replay is None or (replay.get("part") == "a" and replay.get("kind") == "incgraph"):
        part_a_graphs(ck, replay)
    try:
        import c02_b
        if replay is None or replay.get("part") == "b":
            c02_b.run(ck, replay)
    except ImportError:
        ck.cov["not_explored"].append("part (b) containment of a failing extraction in the scan engine: not built yet")
    ck.cov["rule"] = ("(a) every plan TLC reaches in MutationPlan.tla (Truncate, DropSpan, DupSpan, SwapSpans, ReplaceTokenClass, Empty, WhitespaceOnly, Nest, "
                      "HeaderEdit, ZipEdit; depth <= 1 fine grid, depth 2 coarse grid) x every offline built-in extractor x every fixture <= 256 KiB under its "
                      "testdata x 2 (thorough 4) production-path classes accepted by its FileRequired; quick samples the depth-2 plans (150 per "
                      "<extractor, fixture, path>, stratified by operator, from VERIF_SEED); one evaluation = one real Extract call in a child process; "
                      "plans with member k act on the decompressed content of the k-th entry of a zip/jar/egg fixture (re-packed); companion units apply the "
                      "depth-1 plans to a file the extractor reads next to a valid required file (os-release, go.sum, parent pom, locale messages, containerd snapshot db); "
                      "plus every include graph of IncludeGraph.tla (3 requirements files, 512 edge sets x 8 package subsets) through the real requirements extractor; "
                      "plus the byte budget of java/archive (ArchiveBudget.tla): 340 jars with 1..4 nested valid / invalid archives x budgets around every prefix sum; "
                      "distinct_nontrivial = evaluated <extractor, fixture+path, plan> triples whose mutated bytes differ from the fixture (+ include graphs that include a package-less file)")
    ck.assumptions += ["(a) exploration, not proof: the grammar is bounded (grid spans, 3 occurrence selectors, 4 nesting depths, 64-byte header windows, zip records) and mutated files are clamped to 1 MiB",
                       "(a) the rpm extractor is instantiated with Config.Timeout = 1 s (its own bound for corrupt Berkeley DBs, default 5 min) and must honour it; every other extractor runs as list.go constructs it",
                       "(a) memory is the live heap + goroutine stacks above the level before the call, sampled every 5 ms in a process that runs one evaluation at a time; a spike shorter than the sampling period can be missed",
                       "(a) Extract is called the way filesystem.runExtractor calls it (file opened through DirFS of a real directory, Root set); the returned inventory is consumed as runExtractor and Scan's package index do (every entry dereferenced, ToPURL called)",
                       "(a) companions are discovered by recording which other paths an extractor asks its scan FS for on its unmodified fixtures (plus the containerd snapshotter db, opened with os calls); they are present and valid in every unit"]
    return ck.finish()


vf.main_wrapper(main)
