#!/usr/bin/env python3
import json, jsonschema, glob, sys
m=json.load(open('/verif/MANIFEST.json')); jsonschema.validate(m,json.load(open('/root/.vp/MANIFEST.schema.json'))); print("manifest ok")
s=json.load(open('/root/.vp/EVIDENCE.schema.json'))
for f in sorted(glob.glob('/verif/evidence/*.json')):
    jsonschema.validate(json.load(open(f)),s); print("ok",f)
