#!/usr/bin/env python3
"""C15 - SBOMs the library writes can be read back by the library.
TLC: Convert.tla (mode "inv") builds every inventory of the bounded space by actions, runs the export loop,
WriteFile and Scan stages, checks that the loop is the declared filter and that the re-imported multiset is
the declared one, and emits each (inventory, format) with the expected multiset of normalised package URLs.
Harness `vconv sbomrt`: builds the ScanResult, exports through binary/cli.WriteScanResults
(converter.ToSPDX23/ToCDX + spdx.Write23 / cdx.Write) to a file the SBOM extractors require, scans it with
scalibr.New().Scan (only sbom/spdx + sbom/cdx) and returns the re-imported package URLs.
`sbomrt-native`: the same for inventories of packages really emitted by the built-in extractors on the
repository's fixtures (native metadata and ToPURL); expectation from the specification's filter and rules."""
import json, os, sys
sys.path.insert(0, os.path.dirname(os.path.abspath(__file__)))
import vf, args, convlib

SPDX = ("spdx23-json", "spdx23-yaml", "spdx23-tag-value")


def multiline(p):
    """class predicate of C15-spdx-tagvalue-multiline: a name/version the tag-value syntax cannot carry on one line"""
    return p is not None and any("\n" in s or "\r" in s or s.startswith("<text>") for s in (p["name"], p["version"]))


GROUPS = {}


def report(key, text, replay):
    """violations are grouped by (kind, format, types involved): first witness + count"""
    g = GROUPS.setdefault(key, {"n": 0, "text": text, "replay": replay})
    g["n"] += 1


def flush(ck):
    for key, g in sorted(GROUPS.items(), key=lambda kv: str(kv[0])):
        rp = dict(g["replay"])
        rp["count"] = g["n"]
        ck.violation("%s [%d case(s) of this class]" % (g["text"], g["n"]), rp)


def judge(ck, rules, o, exp_norm, exported, what, replay):
    """exp_norm: list of normal forms that must come back; exported: the exported package URL records."""
    fmtn = o["format"]
    if o.get("panic") or o.get("write_err"):
        report(("export", fmtn, (o.get("panic") or o.get("write_err"))[:60]), "%s: export in %s failed: %s" % (what, fmtn, (o.get("panic") or o.get("write_err"))[:800]), replay)
        return False
    if len(o.get("required_by") or []) != 1:
        report(("required", fmtn), "%s: the written file %s is required by %s (expected exactly one SBOM extractor)" % (what, o["file"], o.get("required_by")), replay)
        return False
    eb = convlib.bag(exp_norm)

    def matches(scan):
        return convlib.bag([convlib.norm(p, rules) for p in scan["reimported"]]) == eb

    def sig(scan):
        gb = convlib.bag([convlib.norm(p, rules) for p in scan["reimported"]])
        return (tuple(sorted({k[0] for k in eb if eb[k] > gb.get(k, 0)})), tuple(sorted({k[0] for k in gb if gb[k] > eb.get(k, 0)})),
                tuple(s[:40] for s in (scan.get("plugin_fail") or [])))

    def describe(scan):
        mi, ex = convlib.bag_diff(eb, convlib.bag([convlib.norm(p, rules) for p in scan["reimported"]]))
        return "missing %s, unexpected %s (scan status %s; plugin failures %s)" % (mi[:4], ex[:4], scan.get("scan_status"), scan.get("plugin_fail"))

    if matches(o):
        return True
    if fmtn == "spdx23-tag-value":
        # C15-spdx-tagvalue-supplier: the document carries "PackageSupplier: NOASSERTION: NOASSERTION" lines, which the
        # library's reader rejects, so every tag-value document is unreadable today. The rest of the tag-value path is
        # judged on the same file with only those lines rewritten (harness: "patched").
        p = o.get("patched")
        if p is not None and p.get("supplier_lines", 0) > 0 and ck.known_finding("C15-spdx-tagvalue-supplier", ""):
            if p.get("panic"):
                report(("panic", fmtn), "%s: tag-value document (supplier line rewritten): %s" % (what, p.get("panic")[:600]), replay)
                return False
            if matches(p):
                return True
            if any(multiline(x) for x in exported) and ck.known_finding("C15-spdx-tagvalue-multiline", ""):
                return True
            report(("diff", fmtn) + sig(p), "%s: spdx23-tag-value (supplier line rewritten): %s" % (what, describe(p)), replay)
            return False
    report(("diff", fmtn) + sig(o), "%s: %s: re-imported package URLs differ from the exported ones: %s" % (what, fmtn, describe(o)), replay)
    return False


def main():
    a = args.parse()
    ck = vf.Check("C15", "model_checking", tier=a.tier, seed=a.seed)
    replay = json.load(open(a.replay))["replay"] if a.replay else None
    rules = None
    cases = []
    if replay:
        rules = {k: set(v) for k, v in replay["rules"].items()}
        if replay["part"] == "model":
            cases = [replay["case"]]
    else:
        s = vf.tlc("Convert", "Convert-inv-sanity.cfg", workers=2, collect=False, timeout=120)
        if s.violated != "Sanity":
            raise vf.NotAVerdict("sanity invariant not violated: vacuous model")
        cfgs = ["Convert-inv-quick.cfg", "Convert-inv3-quick.cfg"]
        if ck.thorough():
            cfgs += ["Convert-inv1.cfg", "Convert-inv3.cfg"]
        seen = set()
        for c in cfgs:
            r = vf.require_ok(vf.tlc("Convert", c, timeout=1200), c)
            ck.add_tlc(c, r, open(os.path.join(vf.SPEC, "cfg", c)).read().split("SPECIFICATION")[0].strip())
            ru, cs = convlib.split_rules(r.cases)
            rules = rules or ru
            for x in cs:
                k = vf.canon(x)
                if k not in seen:
                    seen.add(k)
                    cases.append(x)
        if rules is None:
            raise vf.NotAVerdict("Convert emitted no rules")
        cases = convlib.decode(cases)
        cases.sort(key=vf.canon)  # TLC emits in worker order; every seeded choice must see the same order
    jrules = {k: sorted(v) for k, v in rules.items()}
    # ---- part (a): the TLC-enumerated inventories
    nontriv = set()
    evals = 0
    if cases:
        slim = [{"format": c["format"], "pkgs": [{k: p[k] for k in ("carrier", "has_purl", "p", "name", "version", "cpe")} for p in c["pkgs"]]} for c in cases]
        obs = vf.run_harness("vconv", "sbomrt", slim, timeout=1700)
        if len(obs) != len(cases):
            raise vf.NotAVerdict("harness returned %d of %d cases" % (len(obs), len(cases)))
        for o in obs:
            c = cases[o["i"]]
            rp = {"part": "model", "case": c, "rules": jrules, "observed": {k: o.get(k) for k in ("reimported", "scan_status", "plugin_fail", "panic", "write_err", "patched")}}
            what = "inventory %s" % json.dumps([p["p"] if p["has_purl"] else None for p in c["pkgs"]])[:900]
            # the specification's expectation must be in normal form under the same rules (table consistency)
            exp = [convlib.norm(p, rules) for p in c["expect"]]
            if exp != [(p["type"], p["ns"], p["name"], p["version"], tuple(tuple(q) for q in p["quals"]), p["subpath"]) for p in c["expect"]]:
                raise vf.NotAVerdict("Convert's tables and the orchestrator's normalisation disagree on %s" % json.dumps(c["expect"]))
            # the carrier's ToPURL must hand out the package URL it carries
            want_ref = [p["p"] if p["has_purl"] else None for p in c["pkgs"]]
            if o.get("ref") != want_ref and not o.get("panic"):
                report(("carrier", c["format"]), "%s: ToPURL of the SBOM carrier does not return the package URL it carries: %s" % (what, json.dumps(o.get("ref"))[:600]), rp)
                continue
            exported = [p["p"] for p in c["pkgs"] if p["has_purl"]]
            judge(ck, rules, o, exp, exported, what, rp)
            evals += 1
            cl = tuple(sorted(tuple(sorted(p["cls"].items())) for p in c["pkgs"]))
            if len(c["pkgs"]) >= 2 or any(v not in ("plain", "none", "generic", "purl") for p in c["pkgs"] for v in p["cls"].values()):
                nontriv.add((c["format"], cl))
        ck.cov["traces_validated_against_impl"] = len(cases)
        ck.cov["cases_replayed"] = len(cases)
        for c in cases[:: max(1, len(cases) // 3)][:3]:
            ck.sample({"format": c["format"], "pkgs": [p["p"] if p["has_purl"] else ("cpe" if p["cpe"] else None) for p in c["pkgs"]], "expect": c["expect"]})
    # ---- part (b): inventories of packages the built-in extractors really emit (native metadata)
    if not replay or replay["part"] == "native":
        nrand = 1500 if ck.thorough() else 250
        nobs = vf.run_harness("vconv", "sbomrt-native", [], args=["-a", "seed=%d" % ck.seed, "-a", "nrand=%d" % nrand, "-a", "maxn=12"], timeout=1700)
        types = set()
        nn = 0
        for o in nobs:
            if replay and (o["inv"]["id"] != replay["inv"] or o["format"] != replay["format"]):
                continue
            fmtn = o["format"]
            refs = [r for r in o["ref"] if r is not None]
            # packages whose URL is not one of its type (the parser rejects it: C14's subject) are outside C15's domain
            exported = [r for r in refs if (fmtn not in SPDX or (r["name"] != "" and r["version"] != ""))]
            for r in exported:
                types.add(r["type"])
            exp = [convlib.norm(r, rules) for r in exported]
            rp = {"part": "native", "inv": o["inv"]["id"], "format": fmtn, "rules": jrules, "tier": ck.tier, "seed": ck.seed,
                  "exported": o["ref_str"], "reimported": o["reimp_str"], "extractors": o["inv"]["extractors"]}
            judge(ck, rules, o, exp, exported, "native inventory %s (%d packages of %s)" % (o["inv"]["id"], len(o["ref"]), sorted(set(o["inv"]["extractors"]))[:5]), rp)
            evals += 1
            nn += 1
            if len(exported) >= 1:
                nontriv.add((fmtn, o["inv"]["id"]))
        ck.cov["native_round_trips"] = nn
        ck.cov["native_purl_types"] = sorted(types)
        ck.cov["traces_validated_against_impl"] = ck.cov.get("traces_validated_against_impl", 0) + nn
    flush(ck)
    ck.count(evals)
    ck.cov["distinct_nontrivial"] = len(nontriv)
    ck.cov["exhaustive"] = True
    ck.cov["rule"] = ("(a) every (inventory, format) reachable in Convert.tla mode inv under the cfg constants: inventories of 0..2 packages over the "
                      "1-deviation alphabet (every emitted purl type and every name/version/namespace/qualifier/sub-path class once, + packages without URL "
                      "and CPE-only), 0..3 packages over a small alphabet (duplicates, order, filtered entries), thorough: every single package within 3 "
                      "deviations; x 5 formats; (b) one inventory per fixture harvest batch of every built-in extractor + seeded random inventories of 0..12 "
                      "harvested packages with duplicates x 5 formats; non-trivial = at least two packages or a non-plain class / at least one exported URL")
    ck.cov["not_explored"] += ["SPDX RDF and CycloneDX protobuf (not written by the library)", "nested CycloneDX components (the writer emits a flat list)",
                               "conan namespace+channel", "inventories of more than 3 generated packages (12 native)"]
    ck.assumptions += [
        "exported = packages with a package URL; SPDX additionally omits package URLs without name or version (converter.ToSPDX23's documented filter)",
        "package URLs are compared as structures up to the normal form of their type (Convert!Norm: case of namespace/name for the types whose definition says so, "
        "pypi '_'->'-', qualifier keys lower-case and sorted, empty qualifier values dropped, '/' trimmed); the string primitives are applied by the orchestrator under the spec's rule table",
        "generated packages are carried by the sbom/spdx and sbom/cdx extractors' metadata (ToPURL returns the URL verbatim); native packages come from the fixtures",
        "package URLs that are not of their type (swift without namespace/version, cran without version) are outside the generated domain",
        "spdx23-tag-value: while finding C15-spdx-tagvalue-supplier is open the rest of the tag-value path is judged on the written file with only the supplier line rewritten",
    ]
    return ck.finish()


vf.main_wrapper(main)
