#!/usr/bin/env python3
"""C14 - every emitted package is well-formed and convertible.
TLC: Convert.tla (mode "pkg") checks the conversion pipeline on the class product (identity carried through
every stage, print-then-parse idempotent on the normal form) and emits every abstract package as a case.
Harness `vconv pkgfacts`: harvests packages from every offline built-in filesystem extractor (real
filesystem.Run) over every fixture, seeded mutations of the text fixtures that still parse, the class-product
cases rendered into 12 input formats and substituted into an emitted package of every extractor; computes the
conversion facts of each package on the real code. TLC (ConvertTrace) judges every fact record against
Convert!Clauses and the type table EmittedTypes <= ValidTypes; a failed record becomes a violation that
carries the concrete package."""
import json, os, sys, tempfile, shutil
sys.path.insert(0, os.path.dirname(os.path.abspath(__file__)))
import vf, args, convlib

FACT_KEYS = ("kind", "i", "name_nonempty", "has_location", "panics", "has_purl", "type_valid", "parse_ok", "idem",
             "in_specific", "in_alloftype", "proto", "spdx", "cdx")
NCLAUSES = 17

# open findings (known_findings.json): which failed clauses of which records each one explains
NO_LOCATION_EXTRACTORS = {"chrome/extensions", "dotnet/pe"}
EMPTY_NAME_CLAUSES = {"name_nonempty", "parse_ok", "idempotent", "same_identity"}


def explained(rec, failed):
    """-> {finding id: set of clauses it explains} for this record."""
    out = {}
    if "has_location" in failed and rec["ext"] in NO_LOCATION_EXTRACTORS:
        out["C14-no-location"] = {"has_location"}
    pr = rec.get("purl_rec")
    empty = rec["name"] == "" or (pr is not None and pr["name"] == "")
    if empty and rec["origin"] == "mutated":
        cl = failed & EMPTY_NAME_CLAUSES
        if rec["name"] != "":
            cl.discard("name_nonempty")
        if cl:
            out["C14-empty-name"] = cl
    if pr is not None and pr["type"] == "cran" and pr["version"] == "" and pr["name"] != "":
        cl = failed & {"parse_ok", "idempotent", "same_identity"}
        if cl:
            out["C14-cran-empty-version"] = cl
    return out


def main():
    a = args.parse()
    ck = vf.Check("C14", "exploration", tier=a.tier, seed=a.seed)
    replay = json.load(open(a.replay))["replay"] if a.replay else None
    if replay:
        ck.tier = replay.get("tier", ck.tier)
        ck.seed = replay.get("seed", ck.seed)
    if not replay:
        s = vf.tlc("Convert", "Convert-pkg-sanity.cfg", workers=2, collect=False, timeout=120)
        if s.violated != "Sanity":
            raise vf.NotAVerdict("sanity invariant not violated: vacuous model")
    cfg = "Convert-pkg.cfg" if ck.thorough() else "Convert-pkg-quick.cfg"
    r = vf.require_ok(vf.tlc("Convert", cfg, timeout=900), cfg)
    ck.add_tlc(cfg, r, open(os.path.join(vf.SPEC, "cfg", cfg)).read().split("SPECIFICATION")[0].strip())
    rules, cases = convlib.split_rules(r.cases)
    if rules is None or not cases:
        raise vf.NotAVerdict("Convert emitted no rules / no cases")
    cases = convlib.decode(cases)
    cases.sort(key=vf.canon)  # TLC emits in worker order; every seeded choice must see the same order
    muts = 120 if ck.thorough() else 25
    hargs = ["-a", "seed=%d" % ck.seed, "-a", "mutations=%d" % muts]
    if replay:
        hargs += ["-a", "only=" + replay["ext"]]
    recs = vf.run_harness("vconv", "pkgfacts", cases, args=hargs, timeout=1500)
    if not recs or recs[0].get("kind") != "registry":
        raise vf.NotAVerdict("pkgfacts did not return the registry record")
    reg, pk = recs[0], recs[1:]
    vf.log("[harness] %d packages; runs %s; %d harvest problems" % (len(pk), reg["runs"], len(reg.get("problems") or [])))
    # the normal-form comparison of print-then-parse uses the specification's rule table
    for f in pk:
        f["rt_equiv"] = bool(f["has_purl"] and f.get("reparsed") is not None and
                             convlib.norm(f["purl_rec"], rules) == convlib.norm(f["reparsed"], rules))
    # TLC judges every record
    tmpd = tempfile.mkdtemp(prefix="vc14-")
    bad = {}
    bad_types = []
    try:
        CH = 120000
        chunks = [pk[i:i + CH] for i in range(0, len(pk), CH)] or [[]]
        for n, ch in enumerate(chunks):
            tr = os.path.join(tmpd, "facts%d.ndjson" % n)
            with open(tr, "w") as out:
                if n == 0:
                    out.write(json.dumps({"kind": "registry", "i": 0, "emitted": reg["emitted"], "valid": reg["valid"]}) + "\n")
                for f in ch:
                    d = {k: f[k] for k in FACT_KEYS}
                    d["rt_equiv"] = f["rt_equiv"]
                    out.write(json.dumps(d) + "\n")
            os.environ["VERIF_TRACE"] = tr
            t = vf.tlc("ConvertTrace", "ConvertTrace.cfg", workers=1, timeout=1200, heap="8g")
            if not t.ok:
                vf.log(t.output_tail)
                raise vf.NotAVerdict("ConvertTrace did not accept the fact file (%s)" % t.violated)
            ck.add_tlc("ConvertTrace chunk %d (%d records)" % (n, len(ch)), t)
            for c in t.cases:
                if "bad" in c:
                    bad[c["bad"]] = set(c["failed"])
                elif "bad_types" in c:
                    bad_types += c["bad_types"]
    finally:
        shutil.rmtree(tmpd, ignore_errors=True)
        for f in os.listdir(vf.SPEC):
            if "_TTrace_" in f:
                os.remove(os.path.join(vf.SPEC, f))
    # the Go-side verdict must agree with TLC's (a disagreement is a bug of the machinery)
    for f in pk:
        go_bad = bool(f.get("detail")) or (f["has_purl"] and f["parse_ok"] and not f["rt_equiv"])
        if go_bad != (f["i"] in bad):
            raise vf.NotAVerdict("Go-side verdict and TLC verdict disagree on record %d: %s / %s" % (f["i"], f.get("detail"), bad.get(f["i"])))
    for ex, t in bad_types:
        ck.violation("extractor %s emits package URL type %r which purl.FromString rejects (EmittedTypes not a subset of ValidTypes)" % (ex, t),
                     {"ext": ex, "type": t, "valid": reg["valid"], "tier": ck.tier, "seed": ck.seed, "src": "", "kind": "type-table"})
    groups = {}
    for f in pk:
        if f["i"] not in bad:
            continue
        if replay and replay.get("src") and f["src"] != replay["src"]:
            continue
        failed = set(bad[f["i"]])
        for fid, cl in explained(f, failed).items():
            if ck.known_finding(fid, ""):
                failed -= cl
        if not failed:
            continue
        if "same_identity" in failed and f.get("reparsed") is not None:
            f.setdefault("detail", [])
            f["detail"] = (f["detail"] or []) + ["parse(print(u)) = %s differs from u = %s beyond the normal form of type %s"
                                                 % (json.dumps(f["reparsed"]), json.dumps(f["purl_rec"]), f["ptype"])]
        key = (f["ext"], f["origin"], tuple(sorted(failed)))
        g = groups.setdefault(key, {"n": 0, "first": f})
        g["n"] += 1
    for (ext, origin, failed), g in sorted(groups.items()):
        f = g["first"]
        ck.violation("%s (%s input %s) emits package name=%r version=%r purl=%r locations=%d which fails %s: %s [%d package(s) of this class]"
                     % (ext, origin, f["src"], f["name"], f["version"], f["purl"], f["nloc"], list(failed), "; ".join(f.get("detail") or [])[:700], g["n"]),
                     {"ext": ext, "origin": origin, "src": f["src"], "failed": list(failed), "name": f["name"], "version": f["version"],
                      "purl": f["purl"], "detail": f.get("detail"), "content": f.get("content", ""), "case": cases[f["case"]] if f["case"] >= 0 else None,
                      "count": g["n"], "tier": ck.tier, "seed": ck.seed})
    # coverage
    ck.count(len(pk) * NCLAUSES)
    nontriv = set()
    by_origin = {}
    for f in pk:
        by_origin[f["origin"]] = by_origin.get(f["origin"], 0) + 1
        if f["has_purl"] and ("%" in f["purl"] or "?" in f["purl"] or (f.get("reparsed") and f["reparsed"] != f["purl_rec"])):
            nontriv.add((f["ext"], f["purl"]))
    ck.cov["distinct_nontrivial"] = len(nontriv)
    ck.cov["packages"] = len(pk)
    ck.cov["packages_by_origin"] = by_origin
    ck.cov["harvest_runs"] = reg["runs"]
    ck.cov["class_product_cases"] = len(cases)
    ck.cov["extractors"] = {"total": len(reg["extractors"]), "with_packages": sum(1 for x in reg["extractors"] if x.get("packages"))}
    ck.cov["emitted_types"] = sorted({t for ex, v in reg["emitted"].items() if not ex.startswith("sbom/") for t in v})
    ck.cov["emitted_types_incl_sbom_carriers"] = len({t for v in reg["emitted"].values() for t in v})
    ck.cov["valid_types"] = len(reg["valid"])
    ck.cov["fact_records_judged_by_tlc"] = len(pk)
    ck.cov["rule"] = ("one fact record (17 clauses of Convert!Clauses) per package harvested by the real filesystem.Run from: every testdata fixture of "
                      "every offline built-in filesystem extractor; %d seeded text mutations per UTF-8 fixture that still parse; the TLC class product "
                      "(all packages within %d deviations of the plain package over the name/version/namespace/qualifier/sub-path tables, every emitted "
                      "purl type, 1-2 locations, layer details) rendered into 12 input formats and substituted into one emitted package of every extractor; "
                      "non-trivial = distinct (extractor, purl) whose printed form needs percent-encoding / qualifiers or changes under print-then-parse"
                      % (muts, 3 if ck.thorough() else 2))
    ck.cov["not_explored"] += (reg.get("notes") or []) + [
        "standalone extractors (need a running system)", "binary fixtures are not mutated",
        "harvest problems (panic/hang inside Extract, C02's subject): %d" % len(reg.get("problems") or [])]
    shown = set()
    for f in pk:
        if f["origin"] not in shown and f["has_purl"]:
            shown.add(f["origin"])
            ck.sample({k: f[k] for k in ("ext", "origin", "src", "name", "version", "purl", "nloc")}, cap=6)
    ck.sample({"class_product_case": cases[len(cases) // 2]}, cap=6)
    ck.assumptions += [
        "facts about concrete strings are computed by the Go harness on the real code; TLC judges the recorded fact vectors (binding M) and checks the pipeline on the class product",
        "print-then-parse idempotent is read as: parse(print(u)) succeeds, parse(print(parse(print(u)))) = parse(print(u)), and parse(print(u)) equals u up to the normal form of its type",
        "SPDX carries a package only if its package URL has a name and a version (converter.ToSPDX23's documented filter); SPDX name/version may be the package's or the package URL's; "
        "SPDX has no location field: the first two locations must appear in PackageSourceInfo",
        "a production path is a path the real FileRequired accepts among the package's own test literals and fixture names",
    ]
    return ck.finish()


vf.main_wrapper(main)
