#!/usr/bin/env python3
"""Regenerates section 0.6 of DESIGN.md (between the SEEDED-TABLE markers) from /verif/seeded/*/meta.json."""
import json, glob, os, re
rows = []
for d in sorted(glob.glob('/verif/seeded/*/')):
    m = json.load(open(d + 'meta.json'))
    r = m.get('confirmed_by_lead', {})
    ch = {k: v for k, v in r.get('checks', {}).items() if not k.endswith('_first')}
    caught = [k for k, v in ch.items() if 'rc=1' in v]
    missed = [k for k, v in ch.items() if 'rc=0' in v]
    first = next((v for k, v in r.get('checks', {}).items() if k.endswith('_first')), "")
    what = re.sub(r'\s+', ' ', m.get('what', ''))[:170]
    needs = re.sub(r'\s+', ' ', m.get('needs', ''))[:150]
    rows.append("| %s | %s | %s | %s | %s |" % (os.path.basename(d[:-1]), what.replace('|', '/'), needs.replace('|', '/'), ", ".join(caught) or "—", ", ".join(missed) or "—"))
table = ["| seeded change | what was changed | needs | caught by | missed by |", "|---|---|---|---|---|"] + rows
p = '/verif/DESIGN.md'
s = open(p).read()
a, b = "<!-- SEEDED-TABLE-BEGIN -->", "<!-- SEEDED-TABLE-END -->"
s = s[:s.index(a) + len(a)] + "\n" + "\n".join(table) + "\n" + s[s.index(b):]
open(p, 'w').write(s)
print(len(rows), "rows")
