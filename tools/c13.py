#!/usr/bin/env python3
"""C13 - manifest writers change exactly the requested requirements.
TLC: ManifestWrite.tla enumerates abstract package.json / pom.xml documents x update sets x layout
bundles, checks the declarative Subst against an operational writer on the model and emits one case
per terminal state with the expected requirements. The harness (vmanifest write) renders every case,
reads it with the real reader, writes it with the real writer, reads it again and compares bytes
(package.json) / decoded tokens (pom.xml)."""
import json, os, sys, collections
sys.path.insert(0, os.path.dirname(os.path.abspath(__file__)))
import vf, args

QUICK = {
    "npm": ["ManifestWrite-npm-names-quick.cfg", "ManifestWrite-npm-conflicts-quick.cfg"],
    "maven": ["ManifestWrite-mvn-forms-quick.cfg", "ManifestWrite-mvn-scopes-quick.cfg", "ManifestWrite-mvn-layouts-quick.cfg"],
}
THOROUGH = {
    "npm": ["ManifestWrite-npm-names.cfg", "ManifestWrite-npm-conflicts.cfg"],
    "maven": ["ManifestWrite-mvn-forms.cfg", "ManifestWrite-mvn-scopes.cfg", "ManifestWrite-mvn-scopes3.cfg", "ManifestWrite-mvn-layouts.cfg"],
}
FINDINGS = {
    "C13-shared-property-leak": "pom.xml Write rewrites a property although another requirement that is not (consistently) updated reads the same definition: that requirement changes too",
    "C13-same-key-first-match": "pom.xml Write applies an update to the first declaration with the same groupId:artifactId:type:classifier (dependencies before dependencyManagement before profiles) instead of the addressed one and returns nil",
    "C13-parent-property-not-updated": "pom.xml Write patches a property only in the <properties> of the file that holds the dependency: a version property defined in the local parent pom is not updated, nothing changes and Write returns nil",
    "C13-shadowed-property-definition": "pom.xml Write patches the top-level definition of a property although the definition in force for the requirement is another one (active-by-default profile / child overriding the parent): the requirement keeps its version and Write returns nil",
    "C13-comment-inside-value-dropped": "pom.xml Write drops a comment that stands inside a <version> element even when the value is not updated",
}


COMMENT = "C13-comment-inside-value-dropped"
# finding id -> deviation constant of ManifestWrite.tla (TRUE while the finding is not listed as fixed)
DEV = {"C13-same-key-first-match": "DevFirstMatch", "C13-shared-property-leak": "DevLeak",
       "C13-parent-property-not-updated": "DevPropLoc", "C13-shadowed-property-definition": "DevPropLoc"}


def fixed_findings():
    """ids of C13 findings that known_findings.json lists as fixed: their deviation is switched off in the
    as-built transcription, so the repaired behaviour is what the check expects"""
    try:
        d = json.load(open(os.path.join(vf.VERIF, "known_findings.json")))
    except Exception:
        return set()
    extra = {x for x in os.environ.get("C13_FIXED", "").split(",") if x}    # development aid (trying patches in a scratch worktree)
    return {k["id"] for k in d.get("findings", []) if k.get("property") == "C13" and k.get("status") == "fixed"} | extra


def cfg_with_devs(cfg, fixed, tmpd):
    """copy of spec/cfg/<cfg> with the deviation constants of fixed findings set to FALSE (DevPropLoc belongs
    to two findings: it is FALSE only if both are fixed)"""
    txt = open(os.path.join(vf.SPEC, "cfg", cfg)).read()
    for const in sorted(set(DEV.values())):
        ids = [i for i, c in DEV.items() if c == const]
        val = "FALSE" if all(i in fixed for i in ids) else "TRUE"
        txt = txt.replace("%s = TRUE" % const, "%s = %s" % (const, val))
    out = os.path.join(tmpd, cfg)
    with open(out, "w") as f:
        f.write(txt)
    return out, txt


def sort_reqs(rs):
    return sorted(({"k": r["k"], "al": r.get("al", "no"), "v": r["v"]} for r in rs), key=lambda r: r["k"])


def judge_npm(c, o):
    """returns list of problems (empty = property held)"""
    bad = []
    exp = c["expect"]
    if o["panic"]:
        return ["PANIC Write panicked: " + o["panic"].splitlines()[0]]
    if o["err"]:
        # every update of the explored domain is addressed to a requirement present in the file and
        # is expressible, so an error is a failure to write
        return ["ERROR Write returned an error for an expressible update: " + o["err"]]
    if not o["written"]:
        return ["NOFILE Write returned nil but wrote no file"]
    if sort_reqs(o["reqs_after"] or []) != sort_reqs(exp["reqs"]):
        bad.append("REREAD re-reading the written file yields %s, expected %s" % (json.dumps(sort_reqs(o["reqs_after"] or [])), json.dumps(sort_reqs(exp["reqs"]))))
    if not o["preserved"]:
        bad.append("NOT-PRESERVED bytes outside the dependency values changed: " + o["diff"])
    ents = {e["id"]: e for e in c["entries"]}
    to = {u["k"]: u["to"] for u in c["ups"]}
    changed = {int(k): v for k, v in o["changed"].items()}
    for i in exp["must"]:
        if i not in changed:
            bad.append("NOT-APPLIED update of %s not applied to entry %d (%s) although Write returned nil" % (ents[i]["k"], i, ents[i]["sec"]))
    for i, v in changed.items():
        e = ents[i]
        if i not in exp["must"] and i not in exp["may"]:
            bad.append("UNADDRESSED-CHANGED entry %d (%s in %s) was changed to %s but no update addresses it" % (i, e["k"], e["sec"], v))
        elif v != "%s|%s" % (e["al"], to[e["k"]]):
            bad.append("WRONG-VALUE entry %d (%s in %s) was changed to %s, expected %s|%s" % (i, e["k"], e["sec"], v, e["al"], to[e["k"]]))
    if not c["ups"] and not o["same_bytes"]:
        bad.append("NOOP-DIFFERS no updates, yet the output differs from the input")
    if o["nreq"][0] != o["nreq"][1]:
        bad.append("NREQ number of requirements changed from %d to %d" % tuple(o["nreq"]))
    return bad


def tags(bad):
    return "+".join(sorted({b.split(" ")[0] for b in bad}))


def eff_map(lst):
    return {e["id"]: e["v"] for e in lst if e.get("id", 0) != 0}


def judge_maven(c, o, which="expect"):
    """compares the observation with the ideal expectation; returns problems"""
    bad = []
    exp = c["expect"]
    if o["panic"]:
        return ["PANIC Write panicked: " + o["panic"].splitlines()[0]]
    if o["err"]:
        return ["ERROR Write returned an error for an expressible update: " + o["err"]]
    if not o["written"]:
        return ["NOFILE Write returned nil but wrote no file"]
    got = eff_map(o["reqs_after"] or [])
    want = eff_map(exp["eff"])
    ents = {e["id"]: e for e in c["entries"]}
    addressed = {u["e"] for u in c["ups"]}
    for i in sorted(want):
        if got.get(i) != want[i]:
            e = ents[i]
            what = "update not applied although Write returned nil" if i in addressed else "requirement changed although no update addresses it"
            bad.append(("NOT-APPLIED " if i in addressed else "UNADDRESSED-CHANGED ") + "entry %d (%s %s/%s, version %s) re-reads as %s, expected %s: %s" % (i, e["k"], e["loc"], e["sec"], e["v"] or "<managed>", got.get(i), want[i], what))
    added = [r for r in (o["reqs_after"] or []) if r.get("k") == "added"]
    if c["add"]:
        if [r["v"] for r in added] != [c["add"] + " x1"]:
            bad.append("ADDED the added dependencyManagement override re-reads as %s, expected one requirement %s" % (added, c["add"]))
        if [(a["k"], a["v"]) for a in (o["added"] or [])] != [("org.new:added", c["add"])]:
            bad.append("ADDED inserted dependencies %s, expected exactly org.new:added %s" % (o["added"], c["add"]))
    elif added or o["added"]:
        bad.append("ADDED a dependency was inserted although none was requested: %s" % (o["added"],))
    if not o["preserved"]:
        bad.append("NOT-PRESERVED tokens outside the recorded values changed: " + o["diff"])
    if o.get("lost"):
        bad.append("COMMENT-LOST tokens inside the values %s were dropped although their text is unchanged" % o["lost"])
    for k in sorted(o["changed"]):
        if k not in exp["allowed"]:
            bad.append("UNADDRESSED-VALUE value %s was rewritten to %r but no update addresses it" % (k, o["changed"][k]))
    if not c["ups"] and not c["add"] and o["changed"]:
        bad.append("NOOP-DIFFERS no updates, yet values changed: %s" % o["changed"])
    if o["nreq"][1] - o["nreq"][0] != (1 if c["add"] else 0):
        bad.append("NREQ number of requirements changed from %d to %d" % tuple(o["nreq"]))
    bad += judge_plugin(c, o)
    return bad


def judge_plugin(c, o):
    """the dependency of the managed plugin (outside ManifestWrite.tla's entries): updated exactly when addressed"""
    if not c["layout"].get("plugins"):
        return []
    want = o.get("plg_want") or "1.0"
    if o.get("plg_read") != want:
        return ["%s the managed plugin's dependency org.plugdep:pd re-reads as %s, expected %s (update %s; Write returned nil)"
                % ("PLUGIN-NOT-APPLIED" if o.get("plg_want") else "PLUGIN-CHANGED", o.get("plg_read"), want,
                   "1.0 -> " + o["plg_want"] if o.get("plg_want") else "none")]
    if (o.get("plg_text") or "") != (o.get("plg_want") or ""):
        return ["PLUGIN-TEXT the <version> of the managed plugin's dependency was rewritten to %r, expected %r" % (o.get("plg_text"), o.get("plg_want") or "unchanged")]
    return []


def predicted_lost(c, comment_fixed):
    """as built, writeDependency re-encodes every <version> it does not rewrite and drops a comment inside it"""
    if comment_fixed or c["layout"]["comments"] != "leaf":
        return []
    changed = {x["id"] for x in c["expect_asbuilt"]["changed"]}
    return sorted("e%d" % e["id"] for e in c["entries"] if e["v"] and "e%d" % e["id"] not in changed)


def matches_asbuilt(c, o, comment_fixed):
    """the observation is exactly what the as-built transcription predicts (used only to attribute a
    mismatch to the open findings of the scenario)"""
    ab = c["expect_asbuilt"]
    if sorted(o.get("lost") or []) != predicted_lost(c, comment_fixed):
        return False
    if not (o["panic"] or o["err"] or not o["written"]) and judge_plugin(c, o):
        return False      # no open finding concerns the managed plugin's dependency
    if o["panic"] or o["err"] or not o["written"]:
        return False
    if c["add"]:
        if [(a["k"], a["v"]) for a in (o["added"] or [])] != [("org.new:added", c["add"])]:
            return False
    elif o["added"]:
        return False
    if o["nreq"][1] - o["nreq"][0] != (1 if c["add"] else 0):
        return False
    if not o["preserved"]:
        return False
    if ab["nondet"]:
        # two literal patches for one dependency: Go map iteration order decides; accept either
        got, want = eff_map(o["reqs_after"] or []), eff_map(c["expect"]["eff"])
        keys = {e["k"] for e in c["entries"] if e["id"] in {u["e"] for u in c["ups"]}}
        ents = {e["id"]: e for e in c["entries"]}
        return all(got.get(i) == want[i] or ents[i]["k"] in keys for i in want)
    if eff_map(o["reqs_after"] or []) != eff_map(ab["eff"]):
        return False
    return o["changed"] == {x["id"]: x["v"] for x in ab["changed"]}


def describe(c):
    if c["eco"] == "npm":
        return "package.json %s, updates %s, layout %s" % (
            json.dumps([[e["sec"], e["k"], e["al"], e["v"]] for e in c["entries"]]), json.dumps(c["ups"]), json.dumps(c["layout"]))
    return "pom.xml entries %s, properties %s, updates %s%s, layout %s" % (
        json.dumps([[e["id"], e["loc"], e["sec"], e["k"], e["v"]] for e in c["entries"]]),
        json.dumps([[p["loc"], p["n"], p["v"]] for p in c["pdefs"]]), json.dumps(c["ups"]),
        (" + added override " + c["add"]) if c["add"] else "", json.dumps(c["layout"]))


def size(c):
    return (len(c["entries"]), len(c["ups"]), len(c.get("pdefs", [])), 1 if c.get("add") else 0)


class Tally:
    """verdict bookkeeping across batches: counters, and per class the two smallest witnesses"""

    def __init__(self, comment_fixed):
        self.comment_fixed = comment_fixed
        self.per = collections.Counter()
        self.nontrivial = self.noop = self.noop_same = self.total = 0
        self.viol = {}      # class -> [count, [(size, bad, case, obs)]]
        self.known = {}
        self.samples = {"npm": [], "maven": []}

    @staticmethod
    def _add(d, cls, item):
        e = d.setdefault(cls, [0, []])
        e[0] += 1
        e[1].append(item)
        e[1].sort(key=lambda x: x[0])
        del e[1][2:]

    def batch(self, cases, obs):
        if len(obs) != len(cases):
            raise vf.NotAVerdict("harness returned %d of %d cases" % (len(obs), len(cases)))
        insane = [o for o in obs if not o["sane"]]
        if insane:
            o = insane[0]
            raise vf.NotAVerdict("renderer/reader sanity failed on %d cases, e.g. %s: %s" % (len(insane), describe(cases[o["i"]]), o["why"]))
        for o in obs:
            c = cases[o["i"]]
            self.total += 1
            self.per[c["eco"]] += 1
            if c["ups"]:
                self.nontrivial += 1
                if len(self.samples[c["eco"]]) < 2 and self.nontrivial % 977 == 1:
                    self.samples[c["eco"]].append(c)
            else:
                self.noop += 1
                self.noop_same += 1 if o["same_bytes"] else 0
            if c["eco"] == "npm":
                bad = judge_npm(c, o)
                if bad:
                    self._add(self.viol, "npm " + tags(bad), (size(c), bad, c, o))
                continue
            bad = judge_maven(c, o)
            if not bad:
                continue
            devs = list(c.get("devs") or [])
            if predicted_lost(c, self.comment_fixed):
                devs.append(COMMENT)
            if devs and matches_asbuilt(c, o, self.comment_fixed):
                for d in devs:
                    self._add(self.known, d, (size(c), bad, c, o))
                continue
            self._add(self.viol, "maven " + tags(bad) + ((" in a scenario of " + "+".join(devs) + " but not as that predicts") if devs else ""),
                      (size(c), bad, c, o))


def main():
    a = args.parse()
    ck = vf.Check("C13", "model_checking", tier=a.tier, seed=a.seed)
    fixed = fixed_findings()
    tally = Tally(COMMENT in fixed)
    import tempfile, shutil
    cfgdir = tempfile.mkdtemp(prefix="c13cfg-")
    if os.path.isdir("/dev/shm") and os.access("/dev/shm", os.W_OK):
        harness_tmp = "/dev/shm"      # scratch of the harness: many small files, 6x faster on tmpfs; removed by run_harness
    else:
        harness_tmp = None

    def replay(cases):
        old = tempfile.tempdir
        tempfile.tempdir = harness_tmp
        try:
            obs = vf.run_harness("vmanifest", "write", cases, timeout=1500)
        finally:
            tempfile.tempdir = old
        tally.batch(cases, obs)

    try:
        if a.replay:
            rec = json.load(open(a.replay))["replay"]
            replay([rec["case"]])
        else:
            ecos = [e for e in ("npm", "maven") if os.environ.get("C13_ONLY", e) == e]   # development aid
            for eco in ecos:
                s = vf.tlc("ManifestWrite", cfg_with_devs("ManifestWrite-%s-sanity.cfg" % eco, fixed, cfgdir)[0], workers=2, collect=False, timeout=120)
                if s.violated != "Sanity":
                    raise vf.NotAVerdict("sanity invariant not violated for %s: vacuous model" % eco)
            cfgs = THOROUGH if ck.thorough() else QUICK
            for eco in ecos:
                for cfg in cfgs[eco]:
                    cfgp, txt = cfg_with_devs(cfg, fixed, cfgdir)
                    r = vf.require_ok(vf.tlc("ManifestWrite", cfgp, timeout=1500), cfg)
                    ck.add_tlc(cfg, r, txt.split("SPECIFICATION")[0].strip())
                    replay(r.cases)      # batch by batch: bounded memory
                    r.cases = None
    finally:
        shutil.rmtree(cfgdir, ignore_errors=True)
    # known findings: suppressed only when listed open; otherwise reported as violations (smallest witnesses)
    viol = dict(tally.viol)
    for fid, (n, lst) in sorted(tally.known.items()):
        listed = False
        for _ in range(n):
            listed = ck.known_finding(fid, FINDINGS.get(fid, "")) or listed
        if not listed:
            viol["finding " + fid + " (not listed open in known_findings.json): " + FINDINGS.get(fid, "")] = [n, lst]
    for cls, (n, lst) in sorted(viol.items()):
        for sz, bad, c, o in lst[:2]:
            ck.violation("[%s; %d scenario(s) of this class] %s :: %s" % (cls, n, describe(c), " | ".join(bad[:4])),
                         {"case": c, "observed": o, "class": cls, "problems": bad})
    ck.count(tally.total)
    ck.cov["distinct_nontrivial"] = tally.nontrivial
    ck.cov["traces_validated_against_impl"] = tally.total
    ck.cov["cases_replayed"] = dict(tally.per)
    ck.cov["deviation_constants"] = {c: ("FALSE" if all(i in fixed for i in DEV if DEV[i] == c) else "TRUE") for c in sorted(set(DEV.values()))}
    ck.cov["noop_cases"] = tally.noop
    ck.cov["noop_cases_byte_identical"] = tally.noop_same
    ck.cov["exhaustive"] = True
    ck.cov["rule"] = ("every terminal state of ManifestWrite.tla under the cfg constants: documents (entries in canonical order over "
                      "sections x key classes x alias kinds / locations x version forms, property definition sets) x update sets "
                      "(<= MaxUps, every explored new version per form) x layout bundles; each replayed through the real Read, Write, Read; "
                      "non-trivial = non-empty update set; evaluations = cases replayed")
    for eco in ("npm", "maven"):
        for c in tally.samples[eco]:
            ck.sample(c)
    ck.cov["not_explored"] = [
        "package.json: duplicate keys inside one object, keys spelled with JSON escapes, workspaces, non-registry specifiers, one key with different alias kinds in two sections, two aliases of one real package",
        "pom.xml: one groupId:artifactId:type:classifier declared twice in the same kind of section (addresses are then ambiguous), remote parents and dependencyManagement imports (network), parent version updates, plugin dependency updates (plugin sections are inert content), grandparents, nested property references, comments that contain '<project'",
        "update sets larger than MaxUps, update order other than document order",
    ]
    ck.assumptions += [
        "an update is addressed the way production code does it: PackageUpdate{Name, VersionFrom, Type} copied from the requirement the real reader reported",
        "package.json: the entry in force (dev over optional over prod) must change; other declarations of the same name with the same version may change; nothing else may",
        "pom.xml: a dependency without <version> and the dependencyManagement entry that manages it are one declared value (an update addressed to either changes both)",
        "pom.xml preservation is judged on decoded tokens (elements, attributes in order, character data incl. whitespace, comments, processing instructions); <a/> = <a></a>; entity and CDATA spelling ignored",
        "in the explored domain every update is expressible, so an error returned by Write counts as a failure to write",
    ]
    return ck.finish()


vf.main_wrapper(main)
