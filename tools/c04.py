#!/usr/bin/env python3
"""C04 - each image-up-to-layer view equals the OCI overlay of its layers (LayerOverlay.tla)."""
import json, sys, os
sys.path.insert(0, os.path.dirname(os.path.abspath(__file__)))
import vf, args, overlay


def main():
    a = args.parse()
    ck = vf.Check("C04", "model_checking", tier=a.tier, seed=a.seed)
    if a.replay:
        overlay.replay_one(ck, json.load(open(a.replay))["replay"])
        return ck.finish()
    for sc, inv in (("LayerOverlay-sanity1.cfg", "SanityDisagree"), ("LayerOverlay-sanity2.cfg", "SanityWhiteout")):
        s = vf.tlc("LayerOverlay", sc, workers=4, collect=False, timeout=300)
        if s.violated != inv:
            raise vf.NotAVerdict("sanity invariant %s not violated: vacuous model" % inv)
    fams = ["LayerOverlay-gen-1.cfg", "LayerOverlay-gen-21.cfg", "LayerOverlay-gen-12.cfg", "LayerOverlay-gen-111.cfg"]
    if ck.thorough():
        fams += ["LayerOverlay-gen-22.cfg", "LayerOverlay-gen-211.cfg"]
    overlay.run_family(ck, fams, allvariants=ck.thorough())
    ck.cov["exhaustive"] = True
    ck.cov["rule"] = ("every image reachable in LayerOverlay.tla under the cfg constants: 1..3 layers of up to 1-3 entries (regular files with two contents/modes, directories, symlinks, whiteouts, "
                      "opaque whiteouts) over a 5-path universe of depth 3, any entry order, consistent snapshot diffs only; each image is written as real tar layers (plain, './'-prefixed, absolute "
                      "names, with/without explicit parent entries), loaded with image.FromV1Image, and every chain layer is probed on every universe path by Stat/Open/ReadDir and by fs.WalkDir; "
                      "plus squashed unpack and a requirer-restricted load; non-trivial = at least two layers and the last view differs from the first")
    ck.cov["not_explored"] += ["hard links, device nodes", "more than 3 layers / 3 entries per layer", "empty layers and history arrangements (covered by C05's alignment cases)",
                               "mtime; permission bits of implicit parent directories"]
    ck.assumptions += ["layers are consistent snapshot diffs (no two entries for one path, nothing under a path the same layer makes a non-directory, no marker under a path the same layer whites out)",
                       "Stat/Open follow symlinks: a symlink node is judged through its listing entry and through its resolved target",
                       "with a file requirer, a directory that holds no required file may be kept or dropped"]
    return ck.finish()


vf.main_wrapper(main)
