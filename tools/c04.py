#!/usr/bin/env python3
"""C04 - each image-up-to-layer view equals the OCI overlay of its layers (LayerOverlay.tla)."""
import json, sys, os
sys.path.insert(0, os.path.dirname(os.path.abspath(__file__)))
import vf, args, overlay


def pathtree(ck):
    """The path tree under every view (PathTree.tla): every operation sequence replayed into the real pathtree.Node."""
    s = vf.tlc("PathTree", "PathTree-sanity.cfg", workers=2, collect=False, timeout=120)
    if s.violated != "Sanity":
        raise vf.NotAVerdict("PathTree sanity invariant not violated")
    for c in ["PathTree-3.cfg", "PathTree-4.cfg"]:
        r = vf.require_ok(vf.tlc("PathTree", c, timeout=900), c)
        ck.add_tlc(c, r, open(os.path.join(vf.SPEC, "cfg", c)).read().split("SPECIFICATION")[0].strip())
        obs = vf.run_harness("vimage", "pathtree", r.cases)
        if len(obs) != len(r.cases):
            raise vf.NotAVerdict("pathtree harness returned %d of %d" % (len(obs), len(r.cases)))
        for o in obs:
            if o["mismatch"] and len(ck.violations) < 60:
                ck.violation("C04 path tree: " + o["mismatch"], {"family": "pathtree", "case": r.cases[o["i"]], "mismatch": [o["mismatch"]]})
        ck.count(len(obs))
        ck.cov["traces_validated_against_impl"] += len(obs)
        ck.cov["pathtree_sequences"] = ck.cov.get("pathtree_sequences", 0) + len(obs)


def main():
    a = args.parse()
    ck = vf.Check("C04", "model_checking", tier=a.tier, seed=a.seed)
    if a.replay:
        rec = json.load(open(a.replay))["replay"]
        if rec.get("family") == "pathtree":
            obs = vf.run_harness("vimage", "pathtree", [rec["case"]])
            if obs[0]["mismatch"]:
                ck.violation("C04 path tree: " + obs[0]["mismatch"], rec)
            ck.count(1); ck.cov["distinct_nontrivial"] += 2; ck.sample(rec["case"])
        else:
            overlay.replay_one(ck, rec)
        return ck.finish()
    for sc, inv in (("LayerOverlay-sanity1.cfg", "SanityDisagree"), ("LayerOverlay-sanity2.cfg", "SanityWhiteout")):
        s = vf.tlc("LayerOverlay", sc, workers=4, collect=False, timeout=300)
        if s.violated != inv:
            raise vf.NotAVerdict("sanity invariant %s not violated: vacuous model" % inv)
    fams = ["LayerOverlay-gen-1.cfg", "LayerOverlay-gen-21.cfg", "LayerOverlay-gen-12.cfg", "LayerOverlay-gen-111.cfg", "LayerOverlay-gen-1111s.cfg"]
    if ck.thorough():
        fams += ["LayerOverlay-gen-22.cfg", "LayerOverlay-gen-211.cfg", "LayerOverlay-gen-11111s.cfg", "LayerOverlay-gen-2111s.cfg"]
    overlay.run_family(ck, fams, allvariants=ck.thorough())
    # hard-link entries (tar TypeLink): only the scenarios that hold one, the others are covered above
    has_hl = lambda c: any(e["kind"] == "hl" for l in c["layers"] for e in l)
    overlay.run_family(ck, ["LayerOverlay-gen-hl21.cfg"] + (["LayerOverlay-gen-hl111.cfg"] if ck.thorough() else []), allvariants=True, only=has_hl)
    pathtree(ck)
    ck.cov["exhaustive"] = True
    ck.cov["rule"] = ("every image reachable in LayerOverlay.tla under the cfg constants: 1..3 layers of up to 1-3 entries (4 and, thorough, 5 layers over a 3-path sub-universe) (regular files with two contents/modes, directories, symlinks, whiteouts, "
                      "opaque whiteouts) over a 5-path universe of depth 3, any entry order, consistent snapshot diffs only; each image is written as real tar layers (plain, './'-prefixed, absolute "
                      "names, with/without explicit parent entries), loaded with image.FromV1Image, and every chain layer is probed on every universe path by Stat/Open/ReadDir and by fs.WalkDir; "
                      "plus squashed unpack and a requirer-restricted load; non-trivial = at least two layers and the last view differs from the first")
    ck.cov["not_explored"] += ["device nodes, hard links to other targets than /e", "more than 5 layers / 3 entries per layer", "empty layers and history arrangements (covered by C05's alignment cases)",
                               "mtime; permission bits of implicit parent directories"]
    ck.assumptions += ["layers are consistent snapshot diffs (no two entries for one path, nothing under a path the same layer makes a non-directory, no marker under a path the same layer whites out)",
                       "Stat/Open follow symlinks: a symlink node is judged through its listing entry and through its resolved target",
                       "with a file requirer, a directory that holds no required file may be kept or dropped"]
    return ck.finish()


vf.main_wrapper(main)
