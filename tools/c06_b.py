#!/usr/bin/env python3
"""C06 part (b) - image loading / unpacking stays inside its designated directory.

spec/Unpack.tla is a sandbox file-system model (Walk = kernel path resolution with symlinks, Inside = component
containment, StrInside = what strings.HasPrefix accepts) with two transcriptions of artifact/image/unpack/unpack.go
(ideal / as-built, five named deviation constants), go-containerregistry's mutate.Extract (Flatten) and the image loader of
layerscanning/image/image.go + CleanUp.  TLC checks ContainmentIdeal, ImageContainment and Completeness on every
scenario of the family cfgs and emits one case per scenario x API mode; harness/cmd/vunpack materialises every case
as real tar layers and runs the real API in a fresh sandbox with whole-sandbox snapshots.

Verdict per case (DESIGN.md section 4): nothing outside the designated directory changed, no escaping link, nothing
left in TMPDIR -> holds.  Otherwise the observation must be EXACTLY the as-built prediction and every deviation
blamed for the scenario must be an OPEN finding of known_findings.json; anything else is a VIOLATION."""
import json, os, shutil, subprocess, sys, tempfile, time
sys.path.insert(0, os.path.dirname(os.path.abspath(__file__)))
import vf

BASE = ["u4", "u3", "u2", "u1", "out"]
TARGET = "r/" + "/".join(BASE)
FINDING = {"zip": "C06-unpack-dotdot-names", "mk": "C06-unpack-mkdir-before-check", "pre": "C06-unpack-prefix-sibling",
           "lnk": "C06-unpack-link-path-unchecked", "lex": "C06-unpack-link-chain-escape"}
DEVTEXT = {"zip": "unpack() accepts entry names whose cleaned form starts with '../' (image.go filters them)",
           "mk": "os.MkdirAll(parent) runs before pathOutsideBaseDirectory: directories are created outside the target",
           "pre": "pathOutsideBaseDirectory uses strings.HasPrefix(parent, base): a sibling whose name starts with the target's name passes",
           "lnk": "no containment check on the symlink / hard-link path: links (symlink_ignore: copied files) are created outside the target",
           "lex": "TargetOutsideRoot is purely lexical: a link whose target passes through another link resolves outside the target and is kept"}

QUICK = ["Unpack-spell-quick.cfg", "Unpack-links-quick.cfg", "Unpack-seq-quick.cfg", "Unpack-misc-quick.cfg"]
THOROUGH = ["Unpack-spell.cfg", "Unpack-links.cfg", "Unpack-seq.cfg", "Unpack-seq4.cfg", "Unpack-misc.cfg"]
SANITY = [("Unpack-sanity-outside.cfg", "SanityOutside"), ("Unpack-sanity-escaping.cfg", "SanityEscaping")]


def content(k):
    if k >= 200:
        return "c%d" % (k - 200) + "B" * 6
    if k >= 100:
        return ("c%d" % (k - 100)).ljust(16, "B")[:8]
    return "c%d" % k


def model_node(n, root):
    """a node record of the specification -> (path, type, detail) in the harness's notation"""
    p = root + "/".join(n["p"]) if n["p"] else root.rstrip("/")
    if n["k"] == "file":
        return (p, "file", content(n["c"]))
    if n["k"] == "sym":
        t = "/".join(n["segs"])
        return (p, "sym", ("@/r/" + t) if n["abs"] else t)
    return (p, "dir", "")


def obs_node(d):
    if d["t"] == "file":
        return (d["p"], "file", d.get("c", "#" + d.get("h", "")))
    if d["t"] == "sym":
        return (d["p"], "sym", d.get("l", ""))
    return (d["p"], d["t"], "")


def in_target(p):
    return p == TARGET or p.startswith(TARGET + "/")


def judge(case, o):
    """-> (status, text, fidelity) ; status in ok | known | bad"""
    img = case["mode"].startswith("img")
    problems = []          # property violations observed
    fidelity = []          # differences to the as-built model that do not touch the property
    if o.get("panic"):
        problems.append("panic: " + o["panic"][:300])
    if img:
        for d in o.get("mid") or []:
            if not (d["p"] == "X" or d["p"].startswith("X/")):
                problems.append("while loading: %s %s (%s) outside the extraction directory" % (d["k"], d["p"], d["t"]))
        if o.get("loaded") and not (o.get("extdir") or "").startswith("tmp/"):
            problems.append("ExtractDir %r is not under TMPDIR" % o.get("extdir"))
        if o.get("extleft"):
            problems.append("ExtractDir still exists after CleanUp")
        for d in o["diff"]:
            problems.append("after CleanUp: %s %s (%s)" % (d["k"], d["p"], d["t"]))
        if problems:
            return "bad", "; ".join(problems[:6]), fidelity
        want = {model_node(n, "X/") for n in case["mid"]}
        if case["loaded"]:
            want.add(("X", "dir", ""))
        got = {obs_node(d) for d in (o.get("mid") or []) if d["k"] == "created"}
        if bool(o.get("loaded")) != case["loaded"] or want != got:
            fidelity.append("image loader on disk: model %s loaded=%s, code %s loaded=%s err=%s" % (sorted(want - got), case["loaded"], sorted(got - want), o.get("loaded"), o["err"][:120]))
        return "ok", "", fidelity
    # unpack modes
    obs_out, obs_in = set(), set()
    for d in o["diff"]:
        t = (d["k"],) + obs_node(d)
        if in_target(d["p"]) and not (d["p"] == TARGET and d["k"] != "modified"):
            obs_in.add(t)
        else:
            obs_out.add(t)
    obs_esc = {e["p"] for e in o["esc"]}
    asb = {("created",) + model_node(n, "r/") for n in case["asb"]}
    asb_out = {t for t in asb if not in_target(t[1])}
    asb_in = asb - asb_out
    asb_esc = {"/".join(p) for p in case["esc"]}
    if obs_in != asb_in or bool(o["err"]) != case["asb_err"]:
        fidelity.append("inside the target: model-only %s code-only %s; model err=%s code err=%r" % (sorted(asb_in - obs_in), sorted(obs_in - asb_in), case["asb_err"], o["err"][:120]))
    if not obs_out and not obs_esc and not problems:
        if asb_out or asb_esc:
            fidelity.append("the as-built model predicts a violation the code does not show: %s %s" % (sorted(asb_out), sorted(asb_esc)))
        return "ok", "", fidelity
    for t in sorted(obs_out):
        problems.append("%s %s (%s %s) outside the target" % (t[0], t[1], t[2], t[3]))
    for e in o["esc"]:
        problems.append("link %s left in the target leads to %s" % (e["p"], e.get("to") or e.get("st")))
    if not o.get("panic") and obs_out == asb_out and obs_esc == asb_esc and case["devs"]:
        return "known", "; ".join(problems[:6]), fidelity
    if obs_out != asb_out or obs_esc != asb_esc:
        problems.append("[as-built model predicts outside=%s escaping=%s devs=%s]" % (sorted(asb_out), sorted(asb_esc), case["devs"]))
    return "bad", "; ".join(problems[:8]), fidelity


def run_cases(case_file, n, timeout=3000):
    """runs `vunpack unpack` on an ndjson case file; yields (case, obs) pairs in case order"""
    binp = vf.build_harness("vunpack")
    tmpd = tempfile.mkdtemp(prefix="vh-")
    try:
        outp = os.path.join(tmpd, "out.ndjson")
        env = vf.go_env()
        env["TMPDIR"] = tmpd
        p = subprocess.run(["timeout", str(timeout), binp, "unpack", "-in", case_file, "-out", outp, "-tmp", tmpd],
                           env=env, capture_output=True, text=True)
        if p.returncode != 0:
            vf.log(p.stdout[-2000:], p.stderr[-6000:])
            raise vf.NotAVerdict("harness vunpack exited %d (dead driver)" % p.returncode)
        obs = [None] * n
        got = 0
        with open(outp) as f:
            for line in f:
                if not line.strip():
                    continue
                i = int(line[5:line.index(",")])      # every result starts with {"i":<idx>,
                obs[i] = line
                got += 1
        if got != n:
            raise vf.NotAVerdict("harness returned %d of %d cases" % (got, n))
        with open(case_file) as f:
            for i, line in enumerate(f):
                yield json.loads(line), json.loads(obs[i])
                obs[i] = None
    finally:
        shutil.rmtree(tmpd, ignore_errors=True)


def consts_of(cfg):
    txt = open(os.path.join(vf.SPEC, "cfg", cfg)).read().split("SPECIFICATION")[0]
    return " ".join(l.strip() for l in txt.splitlines() if l.strip() and not l.strip().startswith("\\*"))


def run(ck, replay, cfgs=None, verbose=False):
    work = tempfile.mkdtemp(prefix="c06b-")
    t_h = 0.0
    try:
        files = []
        if replay:
            cf = os.path.join(work, "replay.ndjson")
            with open(cf, "w") as f:
                f.write(json.dumps(replay["case"]) + "\n")
            files.append(("replay", cf, 1))
        else:
            if cfgs is None:
                for cfg, inv in SANITY:
                    s = vf.tlc("Unpack", cfg, workers=4, collect=False, timeout=300)
                    if s.violated != inv:
                        raise vf.NotAVerdict("%s: sanity invariant %s not violated (vacuous model)" % (cfg, inv))
                icfg = "Unpack-ideal.cfg" if ck.thorough() else "Unpack-ideal-quick.cfg"
                r = vf.require_ok(vf.tlc("Unpack", icfg, collect=False, timeout=900), icfg)
                ck.add_tlc(icfg, r, consts_of(icfg))
            for cfg in (cfgs or (THOROUGH if ck.thorough() else QUICK)):
                cf = os.path.join(work, cfg + ".ndjson")
                r = vf.require_ok(vf.tlc("Unpack", cfg, timeout=3000, case_file=cf, heap="8g"), cfg)
                ck.add_tlc(cfg, r, consts_of(cfg))
                if len(r.cases) < 10:
                    raise vf.NotAVerdict("%s emitted only %d cases" % (cfg, len(r.cases)))
                files.append((cfg, cf, len(r.cases)))
        total = nontrivial = viol_pred = 0
        fid = []
        nfid = 0
        setup = []
        unlisted = {}
        bymode = {}
        for cfg, cf, n in files:
            t0 = time.time()
            k = 0
            for case, o in run_cases(cf, n):
                total += 1
                bymode[case["mode"]] = bymode.get(case["mode"], 0) + 1
                if o.get("setup"):
                    setup.append((case, o["setup"]))
                    continue
                if o["diff"] or o.get("mid"):
                    nontrivial += 1
                if case["devs"]:
                    viol_pred += 1
                st, text, fidelity = judge(case, o)
                rec = {"part": "b", "case": case, "observed": o}
                what = "%s on layers %s" % (case["mode"], json.dumps([[entry_str(e) for e in l] for l in case["layers"]]))
                if fidelity:
                    nfid += 1
                    if len(fid) < 12:
                        fid.append(what + ": " + "; ".join(fidelity))
                if st == "bad":
                    ck.violation("%s: %s" % (what, text), rec)
                elif st == "known":
                    ids = [FINDING[d] for d in case["devs"]]
                    missing = [i for i in ids if i not in ck.known]
                    for i in ids:
                        ck.known_finding(i, text)
                    for i in missing:
                        cnt, w = unlisted.get(i, (0, None))
                        if w is None or len(json.dumps(case["layers"])) < len(json.dumps(w[2]["case"]["layers"])):
                            w = (what, text, rec)
                        unlisted[i] = (cnt + 1, w)
                if k < 2:
                    ck.sample({x: case[x] for x in ("mode", "layers", "devs", "esc")}, cap=8)
                    k += 1
            t_h += time.time() - t0
        dev_of = {v: k for k, v in FINDING.items()}
        for fidg, (cnt, (what, text, rec)) in sorted(unlisted.items()):
            ck.violation("%s [%s] is not an open finding of known_findings.json; %d scenarios show exactly what the as-built model predicts; "
                         "smallest witness: %s: %s" % (fidg, DEVTEXT[dev_of[fidg]], cnt, what, text), rec)
        if setup:
            raise vf.NotAVerdict("%d scenario(s) could not be materialised, e.g. %s: %s" % (len(setup), json.dumps(setup[0][0]["layers"]), setup[0][1]))
        ck.count(total)
        ck.cov["distinct_nontrivial"] += nontrivial
        ck.cov["traces_validated_against_impl"] += total
        ck.cov["b_cases_replayed"] = total
        ck.cov["b_cases_by_mode"] = bymode
        ck.cov["b_cases_with_a_predicted_violation"] = viol_pred
        ck.cov["b_cases_where_code_and_asbuilt_model_differ_without_touching_the_property"] = nfid
        ck.cov["b_model_divergence_samples"] = fid
        ck.cov["b_harness_wall_s"] = round(t_h, 1)
        ck.cov["b_exhaustive"] = True
        ck.cov["b_rule"] = ("(b) every scenario of the Unpack.tla family cfgs (spell: one entry, every name spelling of <= 3 segments from {'..','.','','a','out-evil'} "
                            "absolute/relative + 300-byte names, types reg/dir/sym/hard; links: a link with every such TARGET spelling, alone or written through, either order; "
                            "seq: all sequences of <= 3 (thorough also 4) entries over an alphabet of links/files/dirs incl. symlink-then-write-through-it, any order, "
                            "every split into <= 2 layers; misc: requirer, MaxPass, big files, absent sibling, error paths) x API mode "
                            "(UnpackSquashedFromTarball retain/ignore x log/return, UnpackSquashed retain x log/return, FromV1Image+CleanUp, FromTarball+CleanUp); "
                            "each case = one real API run in a fresh sandbox with whole-sandbox snapshots; non-trivial = the run changed something on disk")
        if nfid:
            vf.log("[c06b] %d case(s) where the as-built model and the code differ inside the designated directory (no verdict impact):" % nfid)
            for f in fid[:6]:
                vf.log("   " + f[:700])
        ck.assumptions += [
            "(b) the sandbox is <tmp>/w*/c*/ with the model root r five levels above the target; TLC asserts that no resolution ever pops the model root",
            "(b) relative link targets are read relative to an empty working directory in symlink_ignore mode (they never exist)",
            "(b) side effects are snapshot differences (path, type, link target, size, mode, SHA-256) of the WHOLE sandbox incl. TMPDIR, cwd and the input archives; writes to absolute paths outside the sandbox would not be observed - the specification and the code agree that absolute names and absolute link targets are joined under the target",
            "(b) a link 'leads outside' when following every link from it (a missing tail taken literally) ends at a path that does not have the target as component-wise prefix; links that lead nowhere (loop, through a file) do not count",
        ]
        ck.cov["not_explored"] += [
            "(b) entry types other than regular file, directory, symlink, hard link; whiteout names; more than 2 layers; more than %d entries per image; remote images; OCI layout tarballs" % (4 if ck.thorough() else 3),
            "(b) FileRequirerPaths requirers (only 'all' and, in the misc family, 'links only'); non-default MaxSymlinkDepth; Windows path separators",
            "(b) a target directory given as a relative path or through a symlink (pathOutsideBaseDirectory compares against the unresolved string)"]
    finally:
        shutil.rmtree(work, ignore_errors=True)


def name_str(n):
    return ("/" if n["abs"] else "") + "/".join(n["segs"])


def entry_str(e):
    s = e["t"] + " " + json.dumps(name_str(e["n"]))
    if e["t"] in ("sym", "hard"):
        s += " -> " + json.dumps(name_str(e["l"]))
    if e.get("big"):
        s += " (big)"
    return s


if __name__ == "__main__":
    # development aid: python3 tools/c06_b.py <cfg>... : runs the cfgs, prints every verdict and model divergence
    ck = vf.Check("C06", "exploration", tier="quick")
    if os.environ.get("C06B_ASSUME_OPEN"):     # development only: pretend the lead listed every finding as open
        ck.known.update({i: {"id": i, "what": DEVTEXT[d]} for d, i in FINDING.items()})
    try:
        run(ck, None, cfgs=sys.argv[1:] or QUICK)
    except vf.NotAVerdict as e:
        print("NOT-A-VERDICT", e)
        sys.exit(2)
    print(json.dumps({k: v for k, v in ck.cov.items() if k.startswith("b_") or k in ("cfgs",)}, indent=1)[:6000])
    seen = {}
    for what, rec in ck.violations:
        key = what.split(":")[0] if what.startswith("C06-") else what[:40]
        seen[key] = seen.get(key, 0) + 1
        if seen[key] <= 3:
            print("VIOL", what[:900])
    print("violations:", len(ck.violations), "known:", ck.known_seen)
