#!/usr/bin/env python3
"""Shared orchestrator library: runs TLC, drives the Go harness, classifies
mismatches against known_findings.json, writes evidence and replay files.

Exit-code discipline (DESIGN.md section 2):
  0  property held on everything explored (possibly with KNOWN-FINDING lines)
  1  VIOLATION by the real code, not listed in known_findings.json
  2  anything that is not a verdict (build failure, TLC error/timeout, dead driver)
"""
import hashlib
import json
import os
import re
import shutil
import subprocess
import sys
import tempfile
import time

VERIF = os.path.dirname(os.path.dirname(os.path.abspath(__file__)))
SPEC = os.path.join(VERIF, "spec")
HARNESS = os.path.join(VERIF, "harness")
REPO = os.environ.get("VERIF_REPO", "/repo")
NCPU = os.cpu_count() or 4


class NotAVerdict(Exception):
    pass


def log(*a):
    print(*a, file=sys.stderr, flush=True)


def go_env():
    env = dict(os.environ)
    env["GOFLAGS"] = "-mod=mod"
    env["GOPROXY"] = "off"
    env.pop("GOTOOLCHAIN", None)
    env.pop("GOSUMDB", None)
    return env


_built = {}


def build_harness(binary, race=False):
    """Rebuilds one conformance binary (harness/cmd/<binary>) against the current working tree of /repo
    (or of $VERIF_REPO, used only to try mutations in a scratch worktree), tag verif."""
    alt = os.path.abspath(REPO) != "/repo"
    tag = ("-alt" + hashlib.sha1(os.path.abspath(REPO).encode()).hexdigest()[:8]) if alt else ""
    out = os.path.join(HARNESS, "bin", binary + tag + ("-race" if race else ""))
    if _built.get(out) and os.path.exists(out):
        return out
    t0 = time.time()
    cmd = ["go", "build", "-tags", "verif", "-o", out]
    if alt:
        mod = os.path.join(HARNESS, "go%s.mod" % tag)
        with open(os.path.join(HARNESS, "go.mod")) as f:
            txt = f.read().replace("=> /repo", "=> " + os.path.abspath(REPO))
        with open(mod, "w") as f:
            f.write(txt)
        shutil.copyfile(os.path.join(REPO, "go.sum"), os.path.join(HARNESS, "go%s.sum" % tag))
        cmd.append("-modfile=" + mod)
    else:
        shutil.copyfile(os.path.join(REPO, "go.sum"), os.path.join(HARNESS, "go.sum"))
    if race:
        cmd.append("-race")
    cmd.append("./cmd/" + binary)
    p = subprocess.run(cmd, cwd=HARNESS, env=go_env(), capture_output=True, text=True)
    if p.returncode != 0:
        log(p.stdout[-4000:], p.stderr[-8000:])
        raise NotAVerdict("harness build failed: " + binary)
    _built[out] = True
    log("[build] %s%s built in %.1fs (repo %s)" % (binary, " (race)" if race else "", time.time() - t0, REPO))
    return out


class TLCResult:
    def __init__(self):
        self.generated = 0
        self.distinct = 0
        self.cases = []
        self.wall = 0.0
        self.ok = False
        self.violated = None      # name of violated invariant/property, if any
        self.output_tail = ""
        self.coverage = {}
        self.depth = 0


def tlc(module, cfg, workers=None, timeout=900, simulate=None, depth=None, seed=None,
        collect=True, heap=None, extra=None, cwd=None, deque=False, coverage=False, case_file=None):
    """Runs TLC on spec/<module>.tla with spec/cfg/<cfg>. Collects every line that is a
    PrintT(ToJson(...)) case. Raises NotAVerdict on anything but success / invariant violation."""
    workers = workers or min(NCPU, 16)
    md = tempfile.mkdtemp(prefix="vtlc-")
    res = TLCResult()
    cfgp = cfg if os.path.isabs(cfg) else os.path.join(SPEC, "cfg", cfg)
    cmd = ["timeout", str(timeout), "tlc", "-workers", str(workers), "-metadir", md,
           "-noGenerateSpecTE", "-config", cfgp]
    if simulate:
        cmd += ["-simulate", simulate]
    if depth:
        cmd += ["-depth", str(depth)]
    if seed is not None:
        cmd += ["-seed", str(seed)]
    if coverage:
        cmd += ["-coverage", "1"]
    if extra:
        cmd += extra
    cmd.append(module + ".tla")
    env = dict(os.environ)
    jopts = []
    if deque:
        jopts.append("-Dtlc2.tool.queue.IStateQueue=StateDeque")
    if heap:
        jopts.append("-Xmx" + heap)
    jopts.append("-Xss256m")
    env["JAVA_TOOL_OPTIONS"] = " ".join(jopts)
    t0 = time.time()
    tail = []
    cf = open(case_file, "w") if case_file else None
    try:
        p = subprocess.Popen(cmd, cwd=cwd or SPEC, env=env, stdout=subprocess.PIPE,
                             stderr=subprocess.STDOUT, text=True, bufsize=1 << 20)
        for line in p.stdout:
            if line.startswith('"{') or line.startswith('"['):
                if collect:
                    try:
                        s = json.loads(line)
                        if cf:
                            cf.write(s + "\n")
                            res.cases.append(None)
                        else:
                            res.cases.append(json.loads(s))
                    except Exception:
                        tail.append(line)
                continue
            tail.append(line)
            if len(tail) > 400:
                del tail[:200]
            m = re.match(r"(\d+) states generated, (\d+) distinct states found", line)
            if m:
                res.generated, res.distinct = int(m.group(1)), int(m.group(2))
            m = re.match(r"The depth of the complete state graph search is (\d+)", line)
            if m:
                res.depth = int(m.group(1))
            m = re.match(r"Error: Invariant (\S+) is violated", line)
            if m:
                res.violated = m.group(1)
            if "is violated" in line and res.violated is None and line.startswith("Error:"):
                res.violated = line.strip()
            m = re.match(r"Error: Postcondition (\S+) .* is false", line)
            if m and res.violated is None:
                res.violated = m.group(1)
            m = re.match(r"<(\w+) line \d+, col \d+ to line \d+, col \d+ of module (\w+)>: (\d+):(\d+)", line)
            if m:
                res.coverage[m.group(1)] = res.coverage.get(m.group(1), 0) + int(m.group(4))
        rc = p.wait()
    finally:
        if cf:
            cf.close()
        shutil.rmtree(md, ignore_errors=True)
        for junk in ("states",):
            shutil.rmtree(os.path.join(cwd or SPEC, junk), ignore_errors=True)
    res.wall = time.time() - t0
    res.output_tail = "".join(tail[-120:])
    if rc == 124:
        raise NotAVerdict("TLC timeout on %s/%s after %ds" % (module, cfg, timeout))
    if rc == 0:
        res.ok = True
        return res
    if res.violated:
        return res
    if simulate and rc in (0, 130, 143):
        res.ok = True
        return res
    log(res.output_tail)
    raise NotAVerdict("TLC failed on %s/%s rc=%d" % (module, cfg, rc))


def require_ok(res, what):
    if not res.ok:
        log(res.output_tail)
        raise NotAVerdict("model-level failure in %s: %s (a model error is never a verdict)" % (what, res.violated))
    return res


def run_harness(binary, sub, cases=None, args=None, timeout=1800, race=False, infile=None, env_extra=None, raw=False):
    """Feeds ndjson cases to `<binary> <sub>`; returns the list of ndjson result objects."""
    binp = build_harness(binary, race=race)
    tmpd = tempfile.mkdtemp(prefix="vh-")
    try:
        inp = infile
        if inp is None:
            inp = os.path.join(tmpd, "cases.ndjson")
            with open(inp, "w") as f:
                for c in cases or []:
                    f.write(json.dumps(c) + "\n")
        outp = os.path.join(tmpd, "out.ndjson")
        cmd = [binp, sub, "-in", inp, "-out", outp, "-tmp", tmpd] + (args or [])
        env = go_env()
        env["TMPDIR"] = tmpd
        if env_extra:
            env.update(env_extra)
        p = subprocess.run(["timeout", str(timeout)] + cmd, env=env, capture_output=True, text=True)
        if p.returncode != 0:
            log(p.stdout[-3000:])
            log(p.stderr[-6000:])
            raise NotAVerdict("harness %s exited %d (dead driver)" % (sub, p.returncode))
        if raw:
            return p
        out = []
        with open(outp) as f:
            for line in f:
                line = line.strip()
                if line:
                    out.append(json.loads(line))
        return out
    finally:
        shutil.rmtree(tmpd, ignore_errors=True)


def canon(x):
    return json.dumps(x, sort_keys=True, separators=(",", ":"))


def case_id(c):
    return hashlib.sha1(canon(c).encode()).hexdigest()[:16]


def load_known(prop):
    p = os.path.join(VERIF, "known_findings.json")
    if not os.path.exists(p):
        return []
    with open(p) as f:
        d = json.load(f)
    return [k for k in d.get("findings", []) if k.get("property") == prop and k.get("status") == "open"]


class Check:
    """One run of one property check."""

    def __init__(self, prop, level, tier=None, seed=None):
        self.prop = prop
        self.level = level
        self.tier = tier or os.environ.get("VERIF_TIER", "quick")
        if self.tier not in ("quick", "thorough"):
            self.tier = "quick"
        try:
            self.seed = int(seed if seed is not None else os.environ.get("VERIF_SEED", "1"))
        except ValueError:
            self.seed = 1
        self.t0 = time.time()
        self.cov = {"states": 0, "transitions": 0, "traces_validated_against_impl": 0,
                    "samples": [], "cfgs": [], "evaluations": 0, "distinct_nontrivial": 0,
                    "rule": "", "exhaustive": False, "known_findings_witnessed": {},
                    "not_explored": []}
        self.assumptions = []
        self.violations = []      # (what, replay record)
        self.known = {k["id"]: k for k in load_known(prop)}
        self.known_seen = {}
        self._distinct = set()

    def thorough(self):
        return self.tier == "thorough"

    def add_tlc(self, name, res, consts=""):
        self.cov["states"] += res.distinct
        self.cov["transitions"] += res.generated
        e = {"cfg": name, "constants": consts, "generated": res.generated, "distinct": res.distinct,
             "cases_emitted": len(res.cases), "wall_s": round(res.wall, 1), "depth": res.depth}
        if res.coverage:
            e["action_coverage"] = res.coverage
        self.cov["cfgs"].append(e)
        log("[tlc] %s: %d generated / %d distinct, %d cases, %.1fs" % (name, res.generated, res.distinct, len(res.cases), res.wall))

    def sample(self, s, cap=5):
        if len(self.cov["samples"]) < cap:
            self.cov["samples"].append(s)

    def count(self, n_eval, keys=None, nontrivial=None):
        self.cov["evaluations"] += n_eval
        if keys is not None:
            for k in keys:
                self._distinct.add(k)
        if nontrivial is not None:
            self.cov["distinct_nontrivial"] += nontrivial

    def known_finding(self, fid, what):
        """Records that an open known finding was witnessed. Returns False if fid is not listed."""
        if fid not in self.known:
            return False
        self.known_seen[fid] = self.known_seen.get(fid, 0) + 1
        return True

    def violation(self, what, replay):
        self.violations.append((what, replay))

    def finish(self):
        if self._distinct:
            self.cov["distinct_nontrivial"] = max(self.cov["distinct_nontrivial"], len(self._distinct))
        wall = time.time() - self.t0
        for fid, n in sorted(self.known_seen.items()):
            k = self.known[fid]
            print("KNOWN-FINDING: property=%s %s %s (witnessed by %d scenario(s))" % (self.prop, fid, k.get("observed", k.get("what", "")), n))
        self.cov["known_findings_witnessed"] = dict(self.known_seen)
        rc = 0
        rdir = os.environ.get("VERIF_REPLAY_DIR", os.path.join(VERIF, "replays"))
        os.makedirs(rdir, exist_ok=True)
        shown = 0
        for what, replay in self.violations:
            rid = case_id(replay)
            rp = os.path.join(rdir, "%s-%s.json" % (self.prop, rid))
            with open(rp, "w") as f:
                json.dump({"property": self.prop, "what": what, "replay": replay}, f, indent=1, sort_keys=True)
            if shown < 20:
                print("VIOLATION property=%s replay=%s" % (self.prop, rp))
                log("  -> " + what[:600])
                shown += 1
            rc = 1
        ev = {"property_id": self.prop, "tier": self.tier, "seed": self.seed, "level": self.level,
              "coverage": self.cov, "assumptions": self.assumptions, "wall_s": round(wall, 1),
              "violations": len(self.violations)}
        if self.cov["states"] == 0:
            self.cov.pop("states")
            self.cov.pop("transitions")
        edir = os.environ.get("VERIF_EVIDENCE_DIR", os.path.join(VERIF, "evidence"))
        os.makedirs(edir, exist_ok=True)
        with open(os.path.join(edir, self.prop + ".json"), "w") as f:
            json.dump(ev, f, indent=1, sort_keys=True)
        log("[done] %s tier=%s seed=%d wall=%.1fs violations=%d" % (self.prop, self.tier, self.seed, wall, len(self.violations)))
        return rc


def main_wrapper(fn):
    try:
        rc = fn()
    except NotAVerdict as e:
        log("NOT-A-VERDICT: %s" % e)
        sys.exit(2)
    except SystemExit:
        raise
    except BaseException:
        # a crash of the machinery is never a verdict (exit 1 is reserved for VIOLATION lines)
        import traceback
        traceback.print_exc()
        log("NOT-A-VERDICT: the check itself failed (see the traceback above)")
        sys.exit(2)
    sys.exit(rc)


def stratified_sample(items, n, seed, key=None):
    """Deterministic sample of n items (all if fewer)."""
    if len(items) <= n:
        return list(items)
    import random
    r = random.Random(seed)
    idx = list(range(len(items)))
    r.shuffle(idx)
    return [items[i] for i in sorted(idx[:n])]
