#!/usr/bin/env python3
"""C20 - detectors see all extracted packages and their findings are reported intact.
TLC: ScanPipeline.tla checks the transcription of Scan()'s second half (index build, detector loop, advisory
validation, assembly) against the declarative statement on the bounded space and emits every terminal scenario
with the declarative expectation; the harness replays every scenario through the real scalibr.New().Scan()
with harness extractors/detectors and projects the ScanResult and what every detector saw to the same shape."""
import json, sys, os, tempfile, shutil
sys.path.insert(0, os.path.dirname(os.path.abspath(__file__)))
import vf, args

CHUNK = 100000


def norm_findings(fs):
    return sorted((f["det"], f["pos"], f["k"], tuple(f["tag"])) for f in fs)


def norm_status(st):
    return sorted((s["name"], s["st"]) for s in st)


def compare(c, o):
    """Returns a list of mismatch descriptions between the declarative expectation and the observation."""
    exp = c["expect"]
    if "panic" in o:
        return ["Scan panicked: " + o["panic"][:400]]
    bad = []
    if o["calls"] != exp["calls"]:
        bad.append("detector Scan call counts %s, required %s" % (o["calls"], exp["calls"]))
    want_idx = {"all": exp["all"], "oftype": exp["oftype"], "specific": exp["specific"]}
    for di, seen in enumerate(o["seen"]):
        for call, a in enumerate(seen or []):      # None: the detector was never run (reported by the call counts)
            if a != want_idx:
                what = []
                if a["all"] != want_idx["all"]:
                    what.append("GetAll=%s required %s" % (a["all"], want_idx["all"]))
                for t in sorted(want_idx["oftype"]):
                    if a["oftype"].get(t) != want_idx["oftype"][t]:
                        what.append("GetAllOfType(%s)=%s required %s" % (t, a["oftype"].get(t), want_idx["oftype"][t]))
                    for n in sorted(want_idx["specific"][t]):
                        if a["specific"].get(t, {}).get(n) != want_idx["specific"][t][n]:
                            what.append("GetSpecific(%s,%s)=%s required %s" % (n, t, a["specific"].get(t, {}).get(n), want_idx["specific"][t][n]))
                bad.append("index handed to %s (call %d) answers wrongly: %s" % (c["dets"][di]["name"], call + 1, "; ".join(what[:4])))
    if norm_findings(o["findings"]) != norm_findings(exp["findings"]):
        bad.append("result findings %s, required %s" % (norm_findings(o["findings"]), norm_findings(exp["findings"])))
    if norm_status(o["status"]) != norm_status(exp["status"]):
        bad.append("detector status entries %s, required %s" % (norm_status(o["status"]), norm_status(exp["status"])))
    if o["scan"] != exp["scan"]:
        bad.append("scan status %s (%s), required %s" % (o["scan"], o.get("reason", ""), exp["scan"]))
    return bad


def nontrivial(c):
    """scenario where something could go wrong: >=2 detectors with findings, or a purl-less package next to one with a purl"""
    withf = sum(1 for d in c["dets"] if d["out"])
    purl = [p["type"] != "-" for p in c["pkgs"]]
    return withf >= 2 or (any(purl) and not all(purl))


def replay_lines(ck, lines, stats):
    """lines: list of json strings (cases). Runs them through the harness and compares."""
    tmpd = tempfile.mkdtemp(prefix="vc20-")
    try:
        inp = os.path.join(tmpd, "cases.ndjson")
        with open(inp, "w") as f:
            for ln in lines:
                f.write(ln + "\n")
        obs = vf.run_harness("vscanpipe", "pipeline", infile=inp, args=["-a", "seed=%d" % ck.seed], timeout=3000)
    finally:
        shutil.rmtree(tmpd, ignore_errors=True)
    if len(obs) != len(lines):
        raise vf.NotAVerdict("pipeline harness returned %d of %d cases" % (len(obs), len(lines)))
    for o in obs:
        c = json.loads(lines[o["i"]])
        stats["n"] += 1
        exp = c["expect"]
        stats["calls"] += len(exp["calls"])
        if exp["scan"] == "failed":
            stats["failed"] += 1
        if nontrivial(c):
            stats["nontrivial"] += 1
        bad = compare(c, o["obs"])
        if bad:
            stats["bad"] += 1
            if stats["bad"] <= 25:
                c["render"] = o["render"]
                ck.violation("Scan() deviates from the detector-pipeline specification for inventory %s, detectors %s (rendering %s): %s"
                             % (json.dumps(c["pkgs"]), json.dumps(c["dets"]), json.dumps(o["render"]), " | ".join(bad)),
                             {"case": c, "observed": o["obs"], "mismatch": bad})
        elif stats["n"] % 9973 == 1:
            ck.sample({"pkgs": c["pkgs"], "dets": c["dets"], "expect_scan": exp["scan"], "render": o["render"]})


def enricher_part(ck):
    """Growth beyond the listed property (DESIGN section 8): EnricherRun.tla against the real enricher.Run.
    A divergence is not a violation of C20 (the property speaks of detectors); it is reported on stderr as
    CONFORMANCE-NOTE and recorded in the evidence under coverage.beyond_property, the verdict is unaffected."""
    s = vf.tlc("EnricherRun", "EnricherRun-sanity.cfg", workers=4, collect=False, timeout=120)
    if s.violated != "SanityPre":
        raise vf.NotAVerdict("sanity invariant SanityPre not violated: vacuous enricher model")
    tmpd = tempfile.mkdtemp(prefix="vc20e-")
    try:
        cf = os.path.join(tmpd, "enr.ndjson")
        ecfg = "EnricherRun-t.cfg" if ck.thorough() else "EnricherRun.cfg"
        r = vf.require_ok(vf.tlc("EnricherRun", ecfg, timeout=900, case_file=cf), ecfg)
        ck.add_tlc(ecfg, r, open(os.path.join(vf.SPEC, "cfg", ecfg)).read().split("SPECIFICATION")[0].strip())
        lines = [l.rstrip("\n") for l in open(cf) if l.strip()]
        obs = vf.run_harness("vscanpipe", "enrich", infile=cf, timeout=1200)
    finally:
        shutil.rmtree(tmpd, ignore_errors=True)
    if len(obs) != len(lines):
        raise vf.NotAVerdict("enrich harness returned %d of %d cases" % (len(obs), len(lines)))
    div = []
    for o in obs:
        c = json.loads(lines[o["i"]])
        e, g = c["expect"], o["obs"]
        bad = []
        if "panic" in g:
            bad.append("panic: " + g["panic"][:200])
        else:
            for k in ("err", "calls", "saw", "status", "inv", "fs"):
                if g[k] != e[k]:
                    bad.append("%s=%s required %s" % (k, g[k], e[k]))
            if g["order"] != [i + 1 for i in range(len(c["ens"]))] * (1 if e["err"] == "none" else 0):
                bad.append("call order %s" % g["order"])
            if not g["rootok"]:
                bad.append("scan input root not absolute (real root) / not empty (virtual or nil root)")
        if bad:
            div.append({"ens": c["ens"], "root": c["root"], "mismatch": bad})
    for d in div[:5]:
        vf.log("CONFORMANCE-NOTE enricher.Run deviates from EnricherRun.tla (outside C20): %s" % json.dumps(d))
    ck.cov["beyond_property"] = {"EnricherRun.tla": {"cases_replayed_through_enricher.Run": len(obs), "divergences": len(div),
                                                     "first_divergences": div[:3],
                                                     "rule": "every list of <=4 (thorough: 5) enrichers over (Requirements nil | set x DirectFS) x error x adds-a-package, "
                                                             "x scan root nil | relative real directory | virtual"}}


def main():
    a = args.parse()
    ck = vf.Check("C20", "model_checking", tier=a.tier, seed=a.seed)
    stats = {"n": 0, "bad": 0, "failed": 0, "nontrivial": 0, "calls": 0}
    if a.replay:
        rec = json.load(open(a.replay))["replay"]
        replay_lines(ck, [json.dumps(rec["case"])], stats)
        return ck.finish()
    # sanity: the antecedents of the property are reachable (TLC must violate these)
    for cfg, inv in (("ScanPipeline-sanity-fail.cfg", "SanityFail"), ("ScanPipeline-sanity-share.cfg", "SanityShare")):
        s = vf.tlc("ScanPipeline", cfg, workers=4, collect=False, timeout=120)
        if s.violated != inv:
            raise vf.NotAVerdict("sanity invariant %s not violated: vacuous model" % inv)
    cfgs = ["ScanPipeline-index-quick.cfg", "ScanPipeline-findings-quick.cfg"]
    if ck.thorough():
        cfgs = ["ScanPipeline-index.cfg", "ScanPipeline-findings.cfg", "ScanPipeline-findings4.cfg"]
    tmpd = tempfile.mkdtemp(prefix="vc20c-")
    try:
        for c in cfgs:
            cf = os.path.join(tmpd, c + ".ndjson")
            r = vf.require_ok(vf.tlc("ScanPipeline", c, timeout=2400, case_file=cf), c)
            ck.add_tlc(c, r, open(os.path.join(vf.SPEC, "cfg", c)).read().split("SPECIFICATION")[0].strip())
            chunk = []
            with open(cf) as f:
                for line in f:
                    line = line.rstrip("\n")
                    if not line:
                        continue
                    chunk.append(line)
                    if len(chunk) >= CHUNK:
                        replay_lines(ck, chunk, stats)
                        chunk = []
            if chunk:
                replay_lines(ck, chunk, stats)
            os.remove(cf)
    finally:
        shutil.rmtree(tmpd, ignore_errors=True)
        for f in os.listdir(vf.SPEC):
            if "_TTrace_" in f:
                os.remove(os.path.join(vf.SPEC, f))
    if stats["n"] == 0:
        raise vf.NotAVerdict("no cases emitted")
    enricher_part(ck)
    ck.count(stats["n"])
    ck.cov["distinct_nontrivial"] = stats["nontrivial"]
    ck.cov["traces_validated_against_impl"] = stats["n"]
    ck.cov["cases_replayed"] = stats["n"]
    ck.cov["detector_runs_observed"] = stats["calls"]
    ck.cov["scenarios_requiring_failure"] = stats["failed"]
    ck.cov["exhaustive"] = True
    ck.cov["rule"] = ("every terminal scenario of ScanPipeline.tla under the cfg constants: (index cfg) every multiset of packages over 3 extractors "
                      "(2 filesystem, 1 standalone) x {no purl, 2 purl types x 2 purl names} with <=2 detectors; (findings cfgs) every list of <=3 (4) detectors, "
                      "each with/without error and every list of <=2 findings over {A,B}x{x,y}, nil advisory, nil id; each replayed once through the real "
                      "Scan(); non-trivial = >=2 detectors return findings, or the inventory mixes packages with and without purl")
    ck.cov["not_explored"] += [
        "inventories beyond the cfg bound (3 packages quick / 4 thorough), more than 2 purl types/names",
        "two detectors returning the same *Finding pointer; findings returned by extractors (outside the property's domain)",
        "each scenario is run under one of 448 seed-rotated spellings (which Advisory field differs between bodies x/y: title, description, recommendation, "
        "severity enum, type, CVSS score, nil severity; which AdvisoryID field differs between ids; idle extractors enabled or not, equal Extra texts, equal versions, pre-tagged findings, detectors that declare a required extractor), not under all of them",
        "extraction failures, cancellation and requirement-validation failures before the detector phase (C09/C10/C19)"]
    ck.assumptions += ["harness extractors/detectors are the only plugins; detectors return freshly allocated findings on every call",
                       "a reported finding is recognised by reflect.DeepEqual of its Advisory/Target with what the detector returned"]
    return ck.finish()


vf.main_wrapper(main)
