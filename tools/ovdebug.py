#!/usr/bin/env python3
import sys, os, json, collections, re
sys.path.insert(0, os.path.dirname(os.path.abspath(__file__)))
import vf, overlay
ck = vf.Check("CDBG", "model_checking")
ck.known = {k: {} for k in (sys.argv[2].split(",") if len(sys.argv) > 2 and sys.argv[2] else [])}
overlay.run_family(ck, [sys.argv[1]])
c = collections.Counter(); ex = {}
for what, rec in ck.violations:
    mm = rec.get("mismatch", ["(more)"])
    key = re.sub(r"\{.*?\}", "{}", mm[0]); key = re.sub(r"\d+", "N", key)[:120] + " devs=" + str(rec.get("case", {}).get("devs")) + " asb=" + str(rec.get("asbuilt_explains"))
    c[key] += 1; ex.setdefault(key, rec)
for k, v in c.most_common(25):
    print(v, k)
    r = ex[k]
    if "case" in r:
        print("   layers", json.dumps([[ (e["path"], e["kind"]) for e in l] for l in r["case"]["layers"]]), "limit", r["case"].get("limit"))
        print("   mismatch", r["mismatch"][:3])
print("violations", len(ck.violations), "known", ck.known_seen)
