#!/usr/bin/env python3
"""Re-runs the named checks against a filed seeded change after a strengthening and records the result:
   tools/seedrecheck.py <seeded name> <Cxx> [<Cyy> ...]
The first-attempt result is kept under confirmed_by_lead.first_attempt_checks."""
import json, os, subprocess, sys
name, props = sys.argv[1], sys.argv[2:]
d = os.path.join("/verif/seeded", name)
meta = json.load(open(os.path.join(d, "meta.json")))
rec = meta["confirmed_by_lead"]
rec.setdefault("first_attempt_checks", dict(rec.get("checks", {})))
for p in props:
    q = subprocess.run(["python3", "/verif/tools/seedtest.py", os.path.join(d, "patch.diff"), p], capture_output=True, text=True)
    line = [l for l in q.stdout.splitlines() if l.startswith(p + " rc=")]
    rec["checks"][p] = line[0] if line else q.stdout[-300:]
    det = [l.strip() for l in q.stdout.splitlines() if l.strip().startswith("->")]
    if det:
        rec["checks"][p + "_first"] = det[0][:300]
    print(name, rec["checks"][p])
json.dump(meta, open(os.path.join(d, "meta.json"), "w"), indent=1)
