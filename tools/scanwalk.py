"""Shared driver for the ScanWalk.tla family (C01 C08 C09 C10 C02b): run Gen cfgs, replay every emitted
scenario through the real scalibr.Scan in several file-system modes, compare with the specification."""
import json, os, sys, tempfile
sys.path.insert(0, os.path.dirname(os.path.abspath(__file__)))
import vf

INVS = "TypeOK ExactlyTheRequired InventoryIsUnion NeverExtra InodeBound SizeBound NothingAfterCancel FatalOnlyOnRequest Containment"


def bag(triples):
    d = {}
    for t in triples:
        d[(t[0], t[1], t[2])] = d.get((t[0], t[1], t[2]), 0) + t[3]
    return d


def compare(case, run):
    """Returns a list of mismatch strings (empty = conforms)."""
    e = case["expect"]
    cfg = case["cfg"]
    out = []
    if run.get("panic"):
        return ["panic/timeout in Scan: " + run["panic"][:400]]
    cancelled = e["cancelled"]
    if cancelled:
        if e["status"] == "failed" and e["work_remained"] and run["status"] != "failed":
            out.append("context cancelled with work remaining but the scan reported %s" % run["status"])
    elif run["status"] != e["status"]:
        out.append("scan status %s (%s), specification says %s" % (run["status"], run.get("reason", ""), e["status"]))
    exp = bag(e["calls"])
    opt = set((t[0], t[1], t[2]) for t in e["optional"])
    got = bag(run["calls"])
    for k in set(exp) | set(got):
        g, x = got.get(k, 0), exp.get(k, 0)
        if g == x:
            continue
        if k in opt and g < x:
            continue        # an extractor that would start on the same file after cancellation may or may not run
        out.append("Extract calls for root %s extractor %s file %s: observed %d, specification says %d" % (k[0], k[1], k[2], g, x))
    if cancelled:
        for k in run.get("after_cancel") or []:
            r, ex, p = k.split("|", 2)
            if (int(r), ex, p) not in opt:
                out.append("extraction on a further file started after cancellation: %s" % k)
        if run["standalone"] or run["detector"]:
            out.append("a further plugin ran after cancellation (standalone=%d detector=%d)" % (run["standalone"], run["detector"]))
    if cfg["maxInodes"] > 0 and run["visited"] > cfg["maxInodes"]:
        out.append("%d inodes processed, limit %d" % (run["visited"], cfg["maxInodes"]))
    if run["status"] == "ok" and e["status"] == "ok" and not cancelled and not out:
        if bag(run["pkgs"]) != bag(e["pkgs"]):
            out.append("inventory differs: observed %s, specification says %s" % (run["pkgs"], e["pkgs"]))
        elif run.get("ties", 0) != 3 * sum(t[3] for t in e["pkgs"]):
            out.append("%d of %d tie packages reported" % (run.get("ties", 0), 3 * sum(t[3] for t in e["pkgs"])))
        if run["plugins"] != e["plugins"]:
            out.append("plugin statuses %s, specification says %s" % (run["plugins"], e["plugins"]))
        if not run["sorted"]:
            out.append("result not in the documented sorted order")
        if run.get("findings", 7) != 7:
            out.append("%d of the detector's 7 findings reported" % run["findings"])
        if run["dup_status"]:
            out.append("a plugin has more than one status entry")
        if run["standalone"] != (0 if run.get("no_standalone") else 1) or run["detector"] != 1:
            out.append("standalone extractor ran %d times, detector %d times (expected once each)" % (run["standalone"], run["detector"]))
    return out


def nontrivial(case):
    e = case["expect"]
    return len(e["calls"]) > 0 or e["status"] == "failed"


def run_family(ck, cfgs, modes, classify=None, real_every=0, timeout=1500, prop_filter=None):
    """cfgs: list of cfg file names. Returns number of cases replayed."""
    total = 0
    for c in cfgs:
        tmpf = tempfile.NamedTemporaryFile(prefix="vsw-", suffix=".ndjson", delete=False)
        tmpf.close()
        try:
            r = vf.require_ok(vf.tlc("ScanWalk", c, timeout=timeout, case_file=tmpf.name), c)
            ck.add_tlc(c, r, open(os.path.join(vf.SPEC, "cfg", c)).read().split("SPECIFICATION")[0].strip())
            ncases = len(r.cases)
            if ncases == 0:
                raise vf.NotAVerdict("cfg %s emitted no case" % c)
            args = ["-a", "modes=" + ",".join(modes), "-a", "real_every=%d" % max(1, real_every if real_every else (1 if ncases < 8000 else ncases // 4000))]
            obs = vf.run_harness("vscan", "scanwalk", infile=tmpf.name, args=args, timeout=3000)
            if len(obs) != ncases:
                raise vf.NotAVerdict("scanwalk harness returned %d of %d cases for %s" % (len(obs), ncases, c))
            # cases are needed only for mismatching or sampled lines: index the file lazily
            lines = open(tmpf.name).read().split("\n")
            nt = 0
            for o in obs:
                case = json.loads(lines[o["i"]])
                if nontrivial(case):
                    nt += 1
                for run in o["runs"]:
                    mm = compare(case, run)
                    if prop_filter:
                        mm = prop_filter(case, run, mm)
                    if not mm:
                        continue
                    fid = classify(case, run, mm) if classify else None
                    if fid and ck.known_finding(fid, mm[0]):
                        continue
                    if len(ck.violations) < 400:
                        ck.violation("%s [%s mode %s]: %s" % (ck.prop, c, run["mode"], "; ".join(mm[:3])),
                                     {"family": "scanwalk", "cfg": c, "modes": [run["mode"]], "case": case, "observed": run, "mismatch": mm})
                    else:
                        ck.violations.append(("(more)", {"n": len(ck.violations)}))
            ck.count(sum(len(o["runs"]) for o in obs))
            ck.cov["distinct_nontrivial"] += nt
            ck.cov["traces_validated_against_impl"] += ncases
            if ncases:
                ck.sample(json.loads(lines[ncases // 2]))
            total += ncases
        finally:
            os.unlink(tmpf.name)
    return total


def run_swap_family(ck, cfg_name, modes, timeout=600):
    """Order-independence of explicitly requested paths (cfg with InDomain <- InDomainSwap, EmitSwap): every emitted scenario
    <<s, t>> is replayed as given and with the two requests swapped. Calls on the requested files a parent .gitignore matches
    (`free`: whether they are to be extracted is left open) must be the same in both orders; every other call must be what the
    specification says."""
    tmpf = tempfile.NamedTemporaryFile(prefix="vsw-", suffix=".ndjson", delete=False)
    tmpf.close()
    try:
        r = vf.require_ok(vf.tlc("ScanWalk", cfg_name, timeout=timeout, case_file=tmpf.name), cfg_name)
        ck.add_tlc(cfg_name, r, open(os.path.join(vf.SPEC, "cfg", cfg_name)).read().split("SPECIFICATION")[0].strip())
        wrapped = [json.loads(l) for l in open(tmpf.name).read().split("\n") if l.strip()]
        if not wrapped:
            raise vf.NotAVerdict("cfg %s emitted no case" % cfg_name)
        cases = []
        for w in wrapped:
            a = w["c"]
            b = json.loads(json.dumps(a))
            b["cfg"]["paths"] = list(reversed(a["cfg"]["paths"]))
            cases += [a, b]
        obs = vf.run_harness("vscan", "scanwalk", cases, args=["-a", "modes=" + ",".join(modes), "-a", "real_every=1"], timeout=1500)
        if len(obs) != len(cases):
            raise vf.NotAVerdict("scanwalk harness returned %d of %d swap cases" % (len(obs), len(cases)))
        byi = {o["i"]: o for o in obs}
        for k, w in enumerate(wrapped):
            free = set(w["free"])
            oa, ob = byi[2 * k], byi[2 * k + 1]
            exp = {t: n for t, n in bag(w["c"]["expect"]["calls"]).items() if t[2] not in free}
            for ra, rb in zip(oa["runs"], ob["runs"]):
                mm = []
                for nm, run in (("as given", ra), ("swapped", rb)):
                    if run.get("panic"):
                        mm.append("panic/timeout in Scan (%s): %s" % (nm, run["panic"][:300]))
                if not mm:
                    ga, gb = bag(ra["calls"]), bag(rb["calls"])
                    fa = {t: n for t, n in ga.items() if t[2] in free}
                    fb = {t: n for t, n in gb.items() if t[2] in free}
                    if fa != fb:
                        mm.append("Extract calls on the explicitly requested file(s) %s depend on the position of the request: paths %s -> %s, paths %s -> %s"
                                  % (sorted(free), cases[2 * k]["cfg"]["paths"], sorted(fa.items()), cases[2 * k + 1]["cfg"]["paths"], sorted(fb.items())))
                    for nm, g in (("as given", ga), ("swapped", gb)):
                        rest = {t: n for t, n in g.items() if t[2] not in free}
                        if rest != exp:
                            mm.append("Extract calls (%s) on the other files: observed %s, specification says %s" % (nm, sorted(rest.items()), sorted(exp.items())))
                if mm and len(ck.violations) < 400:
                    ck.violation("%s [%s mode %s]: %s" % (ck.prop, cfg_name, ra["mode"], "; ".join(mm[:3])),
                                 {"family": "scanwalk-swap", "cfg": cfg_name, "modes": [ra["mode"]], "case": w, "observed": [ra, rb], "mismatch": mm})
        ck.count(sum(len(o["runs"]) for o in obs))
        ck.cov["distinct_nontrivial"] += len(wrapped)
        ck.cov["traces_validated_against_impl"] += len(cases)
        return len(cases)
    finally:
        os.unlink(tmpf.name)


def replay_one(ck, rec):
    if rec.get("family") == "scanwalk-swap":
        w = rec["case"]
        b = json.loads(json.dumps(w["c"]))
        b["cfg"]["paths"] = list(reversed(w["c"]["cfg"]["paths"]))
        obs = vf.run_harness("vscan", "scanwalk", [w["c"], b], args=["-a", "modes=" + ",".join(rec.get("modes", ["stream/plain"])), "-a", "real_every=1"])
        byi = {o["i"]: o for o in obs}
        free = set(w["free"])
        for ra, rb in zip(byi[0]["runs"], byi[1]["runs"]):
            fa = {t: n for t, n in bag(ra["calls"]).items() if t[2] in free}
            fb = {t: n for t, n in bag(rb["calls"]).items() if t[2] in free}
            if fa != fb:
                ck.violation("%s replay: calls on the requested file(s) %s depend on the position of the request: %s vs %s" % (ck.prop, sorted(free), sorted(fa.items()), sorted(fb.items())),
                             dict(rec, observed=[ra, rb]))
        ck.count(2)
        ck.cov["distinct_nontrivial"] += 1
        ck.sample(w)
        return
    obs = vf.run_harness("vscan", "scanwalk", [rec["case"]], args=["-a", "modes=" + ",".join(rec.get("modes", ["stream/plain"]))])
    for run in obs[0]["runs"]:
        mm = compare(rec["case"], run)
        if mm:
            ck.violation("%s replay: %s" % (ck.prop, "; ".join(mm[:3])), dict(rec, observed=run, mismatch=mm))
    ck.count(1)
    ck.cov["distinct_nontrivial"] += 2
    ck.sample(rec["case"])
