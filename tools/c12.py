#!/usr/bin/env python3
"""C12 - a reported fix is a real fix: re-analysis matches the report.
Shares the Remediation machinery (spec, harness run, trace validation) with C11: see tools/c11.py. This check
reports the C12 verdicts of the harness oracle (fresh analysis of the written manifest = original - fixed +
introduced; no patch => requirements unchanged; fixed vulns not unactionable) and validates the recorded
pipelines against the C12 invariants of RemediationTrace.tla; it writes evidence/C12.json."""
import os, sys
sys.path.insert(0, os.path.dirname(os.path.abspath(__file__)))
import vf, c11

if __name__ == "__main__":
    vf.main_wrapper(lambda: c11.run("C12"))
