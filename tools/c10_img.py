"""C10, image part: the per-file byte limit of the image loader (LayerOverlay.tla with Limit > 0)."""
import os, sys
sys.path.insert(0, os.path.dirname(os.path.abspath(__file__)))
import vf, overlay


def run(ck, rec=None):
    if rec is not None:
        overlay.replay_one(ck, rec)
        return
    overlay.run_family(ck, ["LayerOverlay-lim1.cfg", "LayerOverlay-lim2.cfg", "LayerOverlay-lim3.cfg"], limit_only=True)
    ck.cov["image_limit_rule"] = ("every 2-layer image over files of 1 and 2 bytes, directories and whiteouts, loaded with MaxFileBytes 1, 2 and 3 (file below / at / above the limit): "
                                  "no view exposes a file at or above the limit, no file under the extraction directory is larger than the limit, and the views equal the overlay of the layers without the oversize entries")
    container_scan_limit(ck)


def container_scan_limit(ck):
    """the size limit of a container scan: the layer tracing re-extracts files from older views, where a file may be
    larger than in the final one (LayerTrace.tla histories, MaxFileSize = the largest one-package list)"""
    r = vf.require_ok(vf.tlc("LayerTrace", "LayerTrace-1f-quick.cfg", timeout=900), "LayerTrace-1f-quick.cfg")
    ck.add_tlc("LayerTrace-1f-quick.cfg (size limit of ScanContainer)", r)
    cases = [c for c in r.cases if c["history"] == "match"]
    obs = vf.run_harness("vltrace", "ltrace", cases, args=["-a", "mode=pkglist", "-a", "layout=flat,maxfile"], timeout=1800)
    if len(obs) != len(cases):
        raise vf.NotAVerdict("ltrace returned %d of %d" % (len(obs), len(cases)))
    bad = 0
    seen_big = 0
    for o in obs:
        c = cases[o["i"]]
        res = o.get("obs") if isinstance(o.get("obs"), dict) and "oversize" in o.get("obs", {}) else o
        if res.get("panic"):
            bad += 1
            if bad <= 5:
                ck.violation("C10 container scan with a size limit panicked: " + str(res["panic"])[:300], {"family": "container-limit", "case": c})
            continue
        if res.get("oversize", 0) > 0:
            bad += 1
            if bad <= 5:
                ck.violation("C10 container scan with MaxFileSize %s: %d Extract call(s) were handed a larger file (an older view's version of a package list)"
                             % (res.get("max_file"), res["oversize"]), {"family": "container-limit", "case": c, "observed": res})
        if any(len(op.get("pk", [])) >= 2 for l in c["layers"] for op in (l["ops"].values() if isinstance(l["ops"], dict) else [])):
            seen_big += 1
    if seen_big == 0:
        raise vf.NotAVerdict("no history holds a list above the limit: vacuous")
    ck.count(len(obs))
    ck.cov["distinct_nontrivial"] += seen_big
    ck.cov["traces_validated_against_impl"] += len(obs)
    ck.cov["container_scan_limit_histories"] = len(obs)
