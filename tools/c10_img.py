"""C10, image part: the per-file byte limit of the image loader (LayerOverlay.tla with Limit > 0)."""
import os, sys
sys.path.insert(0, os.path.dirname(os.path.abspath(__file__)))
import vf, overlay


def run(ck, rec=None):
    if rec is not None:
        overlay.replay_one(ck, rec)
        return
    overlay.run_family(ck, ["LayerOverlay-lim1.cfg", "LayerOverlay-lim2.cfg", "LayerOverlay-lim3.cfg"], limit_only=True)
    ck.cov["image_limit_rule"] = ("every 2-layer image over files of 1 and 2 bytes, directories and whiteouts, loaded with MaxFileBytes 1, 2 and 3 (file below / at / above the limit): "
                                  "no view exposes a file at or above the limit, no file under the extraction directory is larger than the limit, and the views equal the overlay of the layers without the oversize entries")
