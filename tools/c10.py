#!/usr/bin/env python3
"""C10 - resource limits and cancellation are hard bounds (scan part: ScanWalk.tla; image part: c10_img when present)."""
import sys, os
sys.path.insert(0, os.path.dirname(os.path.abspath(__file__)))
import vf, swprop


def extra(ck, rec):
    try:
        import c10_img
    except ImportError:
        ck.cov["not_explored"].append("image byte limit: not bound yet")
        return
    if rec is None or rec.get("family") == "image":
        c10_img.run(ck, rec)


vf.main_wrapper(lambda: swprop.run(
    "C10", ["ScanWalk-F10-inodes.cfg", "ScanWalk-F10-cancel.cfg", "ScanWalk-F10-gitlim.cfg", "ScanWalk-F5-links.cfg"], [], [],
    ["stream/plain", "fallback/nasty"],
    "every tree (<= 3-4 nodes) x every inode limit 0..n+1 x 1..2 roots; x every cancellation point (before the scan, from the n-th AfterInodeVisited callback, "
    "from inside the k-th Extract) x size limit with files below/at/above it x two listing orders; the harness observes Extract calls, AfterInodeVisited, "
    "a standalone extractor and a detector (no further plugin after cancellation); non-trivial = limit or cancellation actually strikes or an Extract is expected",
    ["limits and cancellation combined with injected faults"],
    ["after cancellation from inside an Extract call the remaining extractors of the same file may or may not run (both accepted)",
     "'work remained' = an eligible <extractor,file> pair had not been extracted when the context was cancelled"],
    sanity=(("ScanWalk-sanity2.cfg", "SanityFailed"),), extra=extra))
