#!/usr/bin/env python3
"""C10 - resource limits and cancellation are hard bounds (scan part: ScanWalk.tla; image part: c10_img when present)."""
import sys, os
sys.path.insert(0, os.path.dirname(os.path.abspath(__file__)))
import vf, swprop


def plugin_cancel(ck, rec):
    """PluginCancel.tla: the plug-in loops after the walk, every cancellation position, replayed through scalibr.Scan."""
    if rec is None:
        s = vf.tlc("PluginCancel", "PluginCancel-sanity.cfg", workers=2, collect=False, timeout=120)
        if s.violated != "SanityLateCancel":
            raise vf.NotAVerdict("PluginCancel sanity invariant not violated")
        r = vf.require_ok(vf.tlc("PluginCancel", "PluginCancel.cfg", workers=2, timeout=300), "PluginCancel.cfg")
        ck.add_tlc("PluginCancel.cfg", r, "CONSTANTS MaxS = 3 MaxD = 3")
        cases = r.cases
    else:
        cases = [rec["case"]]
    obs = vf.run_harness("vscan", "plugincancel", cases)
    if len(obs) != len(cases):
        raise vf.NotAVerdict("plugincancel harness returned %d of %d" % (len(obs), len(cases)))
    for o in obs:
        c = cases[o["i"]]
        mm = []
        if o["panic"]:
            mm.append("panic in Scan: " + o["panic"])
        if o["ran"] != c["expect"]["ran"]:
            mm.append("plug-ins invoked %s, specification says %s" % (o["ran"], c["expect"]["ran"]))
        if o["status"] not in c["expect"]["status"]:
            mm.append("scan status %s (%s), specification says %s" % (o["status"], o.get("reason", ""), "/".join(c["expect"]["status"])))
        if mm:
            ck.violation("C10 plug-in pipeline [%d standalone, %d detectors, context cancelled inside plug-in #%d]: %s" % (c["ns"], c["nd"], c["cpos"], "; ".join(mm)),
                         {"family": "plugincancel", "case": c, "observed": o, "mismatch": mm})
    ck.count(len(obs))
    ck.cov["distinct_nontrivial"] += sum(1 for c in cases if c["cpos"] >= 0)
    ck.cov["traces_validated_against_impl"] += len(obs)
    ck.cov["plugin_cancel_scenarios"] = len(obs)


def extra(ck, rec):
    if rec is None or rec.get("family") == "plugincancel":
        plugin_cancel(ck, rec)
        if rec is not None:
            return
    try:
        import c10_img
    except ImportError:
        ck.cov["not_explored"].append("image byte limit: not bound yet")
        return
    if rec is None or rec.get("family") == "image":
        c10_img.run(ck, rec)


vf.main_wrapper(lambda: swprop.run(
    "C10", ["ScanWalk-F10-inodes.cfg", "ScanWalk-F10-cancel.cfg", "ScanWalk-F10-gitlim.cfg", "ScanWalk-F5-links.cfg", "ScanWalk-F8-rootsize.cfg"], [], [],
    ["stream/plain", "fallback/nasty"],
    "every tree (<= 3-4 nodes) x every inode limit 0..n+1 x 1..2 roots; x every cancellation point (before the scan, from the n-th AfterInodeVisited callback, "
    "from inside the k-th Extract) x size limit with files below/at/above it x two listing orders; the size limit over two scan roots that hold the same paths with the sizes of small and oversize files swapped; the harness observes Extract calls, AfterInodeVisited, "
    "a standalone extractor and a detector (no further plugin after cancellation); non-trivial = limit or cancellation actually strikes or an Extract is expected",
    ["limits and cancellation combined with injected faults"],
    ["after cancellation from inside an Extract call the remaining extractors of the same file may or may not run (both accepted)",
     "'work remained' = an eligible <extractor,file> pair had not been extracted when the context was cancelled"],
    sanity=(("ScanWalk-sanity2.cfg", "SanityFailed"),), extra=extra))
