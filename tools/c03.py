#!/usr/bin/env python3
"""C03 - well-formed package databases are reported completely and exactly.

TLC: PackageDoc.tla enumerates every document (0..N distinct records, every order, every installed-flag
assignment where the format has the notion) x every layout the format permits (line ending, end-of-file
policy, blank lines, comments, unrelated fields/sections, section policy, format variant), checks that the
reference record loop reports exactly the installed records (NoDrop/NoDup/NoInvent) and emits one case per
terminal state. The harness (vdocs) renders every case into the concrete bytes of its format, runs the REAL
extractor on it and returns the reported (name, version) pairs; they are compared as bags with the
specification's expectation. The renderers are first validated against the repository's own fixtures.
"""
import json, os, shutil, sys, tempfile
sys.path.insert(0, os.path.dirname(os.path.abspath(__file__)))
import vf, args

FORMATS = ["dpkg", "apk", "requirements", "gomod", "cargolock", "packagelock", "composerlock", "gemfilelock",
           "gradlelockfile", "poetrylock", "pipfilelock", "packageslockjson"]

XF = "extractor/filesystem/"
FIXTURES = {
    "dpkg": ["os/dpkg/testdata/dpkg/valid", "os/dpkg/testdata/dpkg/single", "os/dpkg/testdata/dpkg/statusfield",
             "os/dpkg/testdata/dpkg/trailingnewlines"],
    "apk": ["os/apk/testdata/installed", "os/apk/testdata/single"],
    "requirements": ["language/python/requirements/testdata/with_versions.txt", "language/python/requirements/testdata/comments.txt",
                     "language/python/requirements/testdata/per_req_options.txt"],
    "gomod": ["language/golang/gomod/testdata/one-package.mod", "language/golang/gomod/testdata/two-packages.mod",
              "language/golang/gomod/testdata/indirect-packages.mod"],
    "cargolock": ["language/rust/cargolock/testdata/one-package.lock", "language/rust/cargolock/testdata/two-packages.lock",
                  "language/rust/cargolock/testdata/package-with-build-string.lock"],
    "packagelock": ["language/javascript/packagelockjson/testdata/two-packages.v1.json", "language/javascript/packagelockjson/testdata/scoped-packages.v2.json",
                    "language/javascript/packagelockjson/testdata/nested-dependencies.v2.json", "language/javascript/packagelockjson/testdata/nested-dependencies.v1.json"],
    "composerlock": ["language/php/composerlock/testdata/one-package.json", "language/php/composerlock/testdata/two-packages.json"],
    "gemfilelock": ["language/ruby/gemfilelock/testdata/some-gems.lock", "language/ruby/gemfilelock/testdata/rails.lock",
                    "language/ruby/gemfilelock/testdata/has-git-gem.lock"],
    "gradlelockfile": ["language/java/gradlelockfile/testdata/5-pkg", "language/java/gradlelockfile/testdata/one-pkg"],
    "poetrylock": ["language/python/poetrylock/testdata/two-packages.lock", "language/python/poetrylock/testdata/multiple-packages.v2.lock",
                   "language/python/poetrylock/testdata/one-package-with-metadata.lock"],
    "pipfilelock": ["language/python/pipfilelock/testdata/two-packages.json", "language/python/pipfilelock/testdata/multiple-packages.json"],
    "packageslockjson": ["language/dotnet/packageslockjson/testdata/valid/packages.lock.json"],
}

DEFAULT_LAYOUT = {"eol": "LF", "trailing": "nl", "blank": 0, "comments": "none", "extra": 0, "sect": 0}

# Candidate findings: genuine defects of the unchanged tree are attributed to a named id by a
# scenario-class predicate over the case *and* the exact wrong observation the defect predicts. Anything
# else is a violation. An id that known_findings.json does not list (status open) is reported as ONE
# violation with its smallest witness.
FINDINGS = {
    "C03-requirements-dotted-name":
        "requirements.txt: a pinned requirement whose project name contains '.' (legal per PEP 508 / PyPI, e.g. zope.interface==5.4.0, "
        "ruamel.yaml==0.17.21) is silently dropped: reValidPkg = ^\\w(\\w|-)+$ rejects the name",
}


def classify(case, want, obs, err, panic):
    """returns a finding id or None"""
    if case["fmt"] == "requirements" and not err and not panic:
        w = sorted(map(tuple, want))
        dotted = [p for p in w if "." in p[0]]
        if dotted and sorted(map(tuple, obs)) == [p for p in w if "." not in p[0]]:
            return "C03-requirements-dotted-name"
    return None


def nontrivial(c):
    l = c["layout"]
    return len(c["records"]) >= 2 and any(l[k] != v for k, v in DEFAULT_LAYOUT.items())


def fixture_selftest(ck):
    cases = []
    for f in FORMATS:
        for p in FIXTURES[f]:
            ap = os.path.join(vf.REPO, XF, p)
            if os.path.exists(ap) and os.path.getsize(ap) > 0:
                cases.append({"fmt": f, "fixture": ap})
    res = vf.run_harness("vdocs", "docs-fixtures", cases)
    if len(res) != len(cases):
        raise vf.NotAVerdict("docs-fixtures returned %d of %d results" % (len(res), len(cases)))
    per = {}
    layouts = 0
    failed = []
    for r in sorted(res, key=lambda r: r["i"]):
        if "skipped" in r:
            vf.log("[fixtures] %s skipped: %s" % (r["fixture"], r["skipped"]))
            continue
        if r["bad"]:
            failed.append("%s %s: %d of %d layouts do not re-extract to the fixture's packages" % (r["fmt"], r["fixture"], r["bad"], r["layouts"]))
            if len(failed) == 1:
                vf.log(json.dumps(r["mismatches"], indent=1)[:3000])
            continue
        per[r["fmt"]] = per.get(r["fmt"], 0) + 1
        layouts += r["layouts"]
    missing = [f for f in FORMATS if not per.get(f) and not any(x.startswith(f + " ") for x in failed)]
    if missing:
        raise vf.NotAVerdict("renderer self-test: no usable fixture for " + ", ".join(missing))
    ck.cov["renderer_selftest"] = {"fixtures": sum(per.values()), "fixtures_per_format": per, "fixture_layout_renders": layouts, "failed": failed}
    vf.log("[fixtures] %d fixtures, %d fixture x layout renders re-extract identically, %d fixtures failed" % (sum(per.values()), layouts, len(failed)))
    return failed


UNLISTED = {}   # finding id -> (number of scenarios, smallest witness)


def weight(rec):
    c = rec["case"]
    return (len(c["records"]), sum(1 for k, v in DEFAULT_LAYOUT.items() if c["layout"][k] != v), len(json.dumps(rec)))


TALLY = {"per_fmt": {}, "nontrivial": 0}


def compare(ck, ncases, results, origin, cases=None):
    """compares observed and expected bags. results come from the harness in brief mode: conforming cases are
    {"i", "ok", "fmt", "nt"}; every other result carries the case, what was expected and what was observed."""
    if len(results) != ncases:
        raise vf.NotAVerdict("harness returned %d of %d cases" % (len(results), ncases))
    unlisted = UNLISTED
    nviol = 0
    for o in results:
        if o.get("ok") is True:
            TALLY["per_fmt"][o["fmt"]] = TALLY["per_fmt"].get(o["fmt"], 0) + 1
            TALLY["nontrivial"] += 1 if o["nt"] else 0
            continue
        c = o["case"] if "case" in o else cases[o["i"]]
        TALLY["per_fmt"][c["fmt"]] = TALLY["per_fmt"].get(c["fmt"], 0) + 1
        TALLY["nontrivial"] += 1 if nontrivial(c) else 0
        want, obs = o["want"], o["obs"]
        err, panic = o.get("err", ""), o.get("panic", "")
        via = "Extract"
        if sorted(map(tuple, want)) == sorted(map(tuple, obs)) and not err and not panic and o.get("required", True):
            if "scan_obs" not in o or (sorted(map(tuple, want)) == sorted(map(tuple, o["scan_obs"])) and not o.get("scan_err") and not o.get("scan_panic")):
                continue
            # Extract alone is right, the whole filesystem scan of the same tree is not
            via, obs, err, panic = "filesystem.Run", o["scan_obs"], o.get("scan_err", ""), o.get("scan_panic", "")
        rec = {"case": c, "want": want, "observed": obs, "err": err, "panic": panic[:1500], "origin": origin, "via": via}
        fid = classify(c, want, obs, err, panic)
        if fid:
            if not ck.known_finding(fid, FINDINGS[fid]):
                n, w = unlisted.get(fid, (0, None))
                if w is None or weight(rec) < weight(w):
                    w = rec
                unlisted[fid] = (n + 1, w)
            continue
        nviol += 1
        if nviol <= 200:
            ws, os_ = set(map(tuple, want)), set(map(tuple, obs))
            what = []
            if not o.get("required", True):
                what.append("FileRequired rejected the production path")
            if panic:
                what.append("Extract panicked: " + panic.splitlines()[0])
            if err:
                what.append("Extract failed on a well-formed document: " + err)
            if ws - os_:
                what.append("dropped %s" % sorted(ws - os_))
            if os_ - ws:
                what.append("invented %s" % sorted(os_ - ws))
            if not (ws - os_) and not (os_ - ws) and len(obs) != len(want):
                what.append("duplicated: reported %s" % obs)
            ck.violation("%s via %s: %d record(s) %s layout %s: %s" % (c["fmt"], via, len(c["records"]), json.dumps(c["records"]),
                                                              json.dumps(c["layout"], sort_keys=True), "; ".join(what)), rec)
    return ncases


def report_unlisted(ck):
    for fid, (n, rec) in sorted(UNLISTED.items()):
        ck.violation("%s: %s (not listed as open in known_findings.json; %d scenarios; smallest witness %s layout %s): expected %s observed %s %s"
                     % (fid, FINDINGS[fid], n, rec["case"]["fmt"], json.dumps(rec["case"]["layout"], sort_keys=True), rec["want"], rec["observed"], rec["err"]), rec)


def main():
    a = args.parse()
    ck = vf.Check("C03", "model_checking", tier=a.tier, seed=a.seed)
    if a.replay:
        rec = json.load(open(a.replay))["replay"]
        cases = [rec["case"]]
        res = vf.run_harness("vdocs", "docs", cases, args=["-a", "doc=1", "-a", "scan=1"])
        for r in res:
            for p, d in sorted((r.get("doc") or {}).items()):
                vf.log("---- %s ----\n%s" % (p, d.replace("\r", "<CR>")))
            vf.log("want     %s\nobserved %s %s %s" % (r["want"], r["obs"], r.get("err", ""), r.get("panic", "")[:400]))
        compare(ck, 1, res, rec.get("origin", "replay"), cases)
        report_unlisted(ck)
        ck.cov["traces_validated_against_impl"] = 1
        return ck.finish()

    # 1. anti-vacuity: the interesting corner is reachable, and the invariant can fail on this model
    s = vf.tlc("PackageDoc", "PackageDoc-sanity.cfg", workers=2, collect=False, timeout=120)
    if s.violated != "Sanity":
        raise vf.NotAVerdict("sanity invariant not violated: vacuous model")
    s = vf.tlc("PackageDoc", "PackageDoc-noflush.cfg", workers=2, collect=False, timeout=120)
    if s.violated != "NoDrop":
        raise vf.NotAVerdict("NoDrop holds for a record loop that does not flush at end of file: the invariant has no teeth")

    # 2. the renderers reproduce the repository's fixtures
    selftest_failed = fixture_selftest(ck)

    # 3. exhaustive enumeration + replay (cases stream through a file: the thorough tier has millions)
    work = tempfile.mkdtemp(prefix="c03-")
    try:
        cfg = "PackageDoc-thorough.cfg" if ck.thorough() else "PackageDoc-quick.cfg"
        cf = os.path.join(work, "cases.ndjson")
        r = vf.require_ok(vf.tlc("PackageDoc", cfg, timeout=2400, heap="8g", case_file=cf), cfg)
        ck.add_tlc(cfg, r, " ".join(l.strip() for l in open(os.path.join(vf.SPEC, "cfg", cfg)).read().split("SPECIFICATION")[0].splitlines()
                                    if not l.startswith("\\*")))
        ncases = len(r.cases)
        res = vf.run_harness("vdocs", "docs", infile=cf, args=["-a", "scan=1", "-a", "brief=1"], timeout=5400)
        n = compare(ck, ncases, res, cfg)
        del res
        per_fmt = dict(TALLY["per_fmt"])
        if sorted(per_fmt) != sorted(FORMATS) or min(per_fmt.values()) < 100:
            raise vf.NotAVerdict("TLC emitted cases for %s only" % per_fmt)
        # samples: a few actual non-trivial cases, chosen by the seed
        import random
        rnd = random.Random(ck.seed)
        picks = set(rnd.sample(range(ncases), min(ncases, 400)))
        cand = []
        with open(cf) as f:
            for i, line in enumerate(f):
                if i in picks:
                    c = json.loads(line)
                    if nontrivial(c):
                        cand.append(c)
        seen_f = set()
        for c in cand:
            if c["fmt"] not in seen_f and len(seen_f) < 5:
                seen_f.add(c["fmt"])
                ck.sample(c)
    finally:
        shutil.rmtree(work, ignore_errors=True)

    # 4. seeded random documents beyond the exhaustive bounds (TLC simulation of the same spec)
    sim = vf.require_ok(vf.tlc("PackageDoc", "PackageDoc-sim.cfg", simulate="num=%d" % (20000 if ck.thorough() else 4000), depth=12,
                               seed=ck.seed, timeout=900, workers=4), "PackageDoc-sim.cfg")
    seen, simcases = set(), []
    for c in sim.cases:
        k = vf.canon(c)
        if k not in seen:
            seen.add(k)
            simcases.append(c)
    simres = vf.run_harness("vdocs", "docs", simcases, args=["-a", "scan=1", "-a", "brief=1"], timeout=3000)
    n2 = compare(ck, len(simcases), simres, "PackageDoc-sim.cfg seed %d" % ck.seed)
    ck.cov["cfgs"].append({"cfg": "PackageDoc-sim.cfg", "mode": "simulate", "seed": ck.seed, "cases_emitted": len(sim.cases),
                           "distinct_cases": len(simcases), "wall_s": round(sim.wall, 1)})

    report_unlisted(ck)
    if selftest_failed and not ck.violations:
        # the fixtures disagree with their own re-rendering although every generated document is extracted as specified:
        # either a renderer or the extractor mishandles something only the fixtures contain - not a verdict
        raise vf.NotAVerdict("renderer self-test failed without any replay violation: " + "; ".join(selftest_failed[:3]))
    ck.count(n + n2)
    ck.cov["distinct_nontrivial"] = TALLY["nontrivial"]
    ck.cov["traces_validated_against_impl"] = n + n2
    ck.cov["cases_replayed_exhaustive"] = n
    ck.cov["cases_replayed_simulated"] = n2
    ck.cov["cases_per_format"] = per_fmt
    ck.cov["exhaustive"] = True
    ck.cov["rule"] = ("every terminal state of PackageDoc.tla under the cfg constants: every sequence of 0..MaxRecs distinct records over "
                      "NIds (name class, version class) ids (every order; every installed-flag assignment for dpkg) x every layout the "
                      "format's capability row permits (eol, end-of-file policy, extra blank lines, comments, 3 levels of unrelated "
                      "fields/sections, 4 section policies, format variants; quick tier without two layout products, see Reduce), all replayed "
                      "through Extract and through a whole filesystem.Run; plus seeded TLC simulation of larger documents. "
                      "non-trivial = at least 2 records and a non-default layout")
    ck.cov["not_explored"] += [
        "documents with more than MaxRecs records exhaustively (larger ones only by seeded simulation, up to 6 records)",
        "one concrete string per name/version class (6 names x 5 versions per ecosystem); other legal spellings are not enumerated",
        "dpkg states other than installed / config-files / not-installed (unpacked, half-*, triggers-*) - whether they count as installed is not defined by the property",
        "dpkg status.d layout, opkg status path, apk v3 database, go.mod replace directives that hit a required module, go < 1.17 (go.sum merge), "
        "package-lock aliases/git/file dependencies, Pipfile.lock VCS entries, packages.lock.json project references",
        "tabs/trailing spaces inside records, UTF-8 BOM, very long lines, files larger than a few KiB",
        "the whole-scan binding runs filesystem.Run with only the format's own extractor enabled (interaction with other extractors is C01/C08's business)"]
    ck.assumptions += [
        "the oracle is the generator: expect = the (name, version) of every record the document marks installed (PackageDoc.tla: Expect), never the code's output",
        "CRLF is generated only for formats whose own tools accept it (not dpkg, not apk); a missing final newline is not generated for dpkg (dpkg rejects it) nor apk",
        "apk: a last record terminated by a newline but not by an empty line is treated as well-formed (records are separated by empty lines)",
        "go.mod: the extractor documents the pseudo-package (stdlib, <go or toolchain version>); it is expected in addition exactly when the rendered file has a go/toolchain directive; versions are expected without the leading 'v'",
        "Pipfile.lock versions are expected without the '==' pin operator; a Gemfile.lock '-platform' suffix inside the parentheses is not part of the version (Bundler's NAME_VERSION pattern)",
        "package-lock: nested packages are distinct records (the extractor de-duplicates identical name@version by design, so records are distinct pairs); v2 files carry both 'packages' and 'dependencies' describing the same tree",
        "requirements.txt: only '==' pins are generated; '-r' includes are resolved relative to the including file and their records belong to the database",
        "names are compared as written (no ecosystem-specific case/separator normalisation is expected or tolerated)",
        "the renderers are trusted only as far as docs-fixtures validates them: every permitted layout of every listed fixture re-extracts to the fixture's own packages"]
    return ck.finish()


vf.main_wrapper(main)
