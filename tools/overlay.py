"""Driver for the LayerOverlay.tla family (C04 and the image part of C10)."""
import json, os, sys, tempfile
sys.path.insert(0, os.path.dirname(os.path.abspath(__file__)))
import vf

PATHS = ["/a", "/a/b", "/a/b/c", "/a/d", "/e"]
E_IDX = PATHS.index("/e")


def lookup_of(view):
    """What a direct lookup (which follows symlinks) must return for each path, given the node view."""
    out = []
    for k in view:
        if k == "link":
            t = view[E_IDX]
            out.append("-" if t in ("-", "link") else t)
        else:
            out.append(k)
    return out


def children(view, p):
    return sorted(q.rsplit("/", 1)[1] for i, q in enumerate(PATHS) if q.rsplit("/", 1)[0] == p and view[i] != "-")


def judge_views(case, run, lookups, walks):
    """Compares a run against given per-layer views; returns list of mismatch strings."""
    mm = []
    n = len(case["layers"])
    if len(run["layers"]) != n:
        return ["%d chain layers, expected %d" % (len(run["layers"]), n)]
    for i in range(n):
        lo = run["layers"][i]
        want_l = lookup_of(lookups[i])
        if lo["lookup"] != want_l:
            mm.append("layer %d direct lookup %s, expected %s" % (i, dict(zip(PATHS, lo["lookup"])), dict(zip(PATHS, want_l))))
        if lo["walk"] != walks[i]:
            mm.append("layer %d walk %s, expected %s" % (i, dict(zip(PATHS, lo["walk"])), dict(zip(PATHS, walks[i]))))
        if lo.get("extra"):
            mm.append("layer %d walk reaches entries outside the overlay: %s" % (i, lo["extra"]))
        for pi, p in enumerate(PATHS):
            k = lookups[i][pi]
            got = lo["readdir"].get(p)
            if k == "dir":
                if got != children(lookups[i], p):
                    mm.append("layer %d ReadDir(%s) = %s, expected %s" % (i, p, got, children(lookups[i], p)))
            elif k in ("-", "f1", "f2") and got:
                mm.append("layer %d ReadDir(%s) lists %s although the path is %s" % (i, p, got, k))
    return mm


def compare(case, run):
    """Returns (mismatches_vs_ideal, matches_asbuilt)."""
    if run.get("panic"):
        return ["panic while loading/probing: " + run["panic"][:600]], False
    if run.get("err"):
        return ["image load failed: " + run["err"][:300]], False
    ideal = judge_views(case, run, case["expect"], case["expect"])
    lim = case.get("limit", 0)
    if lim > 0:
        if run["max_on_disk"] > lim:
            ideal.append("a layer file of %d bytes was written to disk, limit %d" % (run["max_on_disk"], lim))
        for i, lo in enumerate(run["layers"]):
            for k in lo["lookup"] + lo["walk"]:
                if (k == "f1" and 1 >= lim) or (k == "f2" and 2 >= lim):
                    ideal.append("layer %d exposes a file at or above the byte limit %d" % (i, lim))
    if not run.get("cleaned_up", True):
        ideal.append("temporary extraction directory still present after CleanUp")
    final = case["expect"][-1]
    if lim == 0 and "squashed" in run and run.get("squashed") is not None:   # the unpacker's own size rule is not part of C04/C10
        want = [k if k in ("f1", "f2") else "-" for k in final]
        # a path below a symlinked directory or the symlink itself is not a regular file
        if run.get("squash_err"):
            ideal.append("squashed unpack failed: " + run["squash_err"][:200])
        elif run["squashed"] != want:
            ideal.append("squashed unpack regular files %s, expected %s" % (dict(zip(PATHS, run["squashed"])), dict(zip(PATHS, want))))
    if run.get("req_path"):
        rp = run["req_path"]
        # non-required files must be absent, the required file and the directories leading to it present and unchanged;
        # a directory that holds no required file may be kept or dropped (the property does not say)
        full = run["layers"][-1]["walk"]      # the restriction is judged against the unrestricted load of the same image
        for i, p in enumerate(PATHS):
            k, got = full[i], run["required"][i] if i < len(run["required"]) else "?"
            if p == rp or (k == "dir" and rp.startswith(p + "/")):
                ok = got == k
            elif k == "dir":
                ok = got in ("dir", "-")
            else:
                ok = got == "-"
            if not ok:
                ideal.append("load restricted to %s: %s is %s (full view: %s)" % (rp, p, got, k))
    if not ideal:
        return [], False
    asb = judge_views(case, run, case["asbuilt_lookup"], case["asbuilt_walk"])
    return ideal, (not asb)


def run_family(ck, cfgs, timeout=1800, allvariants=False, limit_only=False, only=None):
    total = 0
    for c in cfgs:
        r = vf.require_ok(vf.tlc("LayerOverlay", c, timeout=timeout), c)
        ck.add_tlc(c, r, open(os.path.join(vf.SPEC, "cfg", c)).read().split("SPECIFICATION")[0].strip())
        cases = [x for x in r.cases if only(x)] if only else r.cases
        if not cases:
            raise vf.NotAVerdict("cfg %s emitted no case" % c)
        # big families are replayed in chunks (bounded memory, bounded wall time per harness process)
        hargs = ["-a", "allvariants=1"] if (allvariants and len(cases) <= 60000) else ["-a", "extras_every=2"]
        nt = 0
        nruns = 0
        CH = 25000
        for base in range(0, len(cases), CH):
            chunk = cases[base:base + CH]
            obs = vf.run_harness("vimage", "overlay", chunk, args=hargs, timeout=3000)
            if len(obs) != len(chunk):
                raise vf.NotAVerdict("overlay harness returned %d of %d cases" % (len(obs), len(chunk)))
            nruns += sum(len(o["runs"]) for o in obs)
            for o in obs:
                case = chunk[o["i"]]
                if len(case["layers"]) > 1 and case["expect"][-1] != case["expect"][0]:
                    nt += 1
                for run in o["runs"]:
                    ideal, asbuilt_ok = compare(case, run)
                    if limit_only and case["devs"]:
                        # C10 judges the byte limit; view differences inside C04's open finding classes are C04's business
                        ideal = [m for m in ideal if ("byte limit" in m or "written to disk" in m or "CleanUp" in m or "panic" in m or "load failed" in m)]
                    if not ideal:
                        continue
                    devs = case["devs"]
                    # requirer / limit / clean-up mismatches are never explained by the view finding classes
                    is_view = lambda m: ("direct lookup" in m or "walk " in m or "ReadDir(" in m or "walk reaches" in m)
                    is_sq = lambda m: m.startswith("squashed unpack")
                    view_mm = [m for m in ideal if is_view(m)]
                    sq_mm = [m for m in ideal if is_sq(m)]
                    other = [m for m in ideal if not is_view(m) and not is_sq(m)]
                    ok = not other
                    if view_mm:
                        ok = ok and bool(devs) and asbuilt_ok and all(ck.known_finding(d, view_mm[0]) for d in devs)
                    if sq_mm:
                        # the squashed unpacker has its own whiteout handling: attributed by scenario class only
                        sq_ids = case.get("sqdevs", [])
                        ok = ok and bool(sq_ids) and all(ck.known_finding(d, sq_mm[0]) for d in sq_ids)
                    if ok:
                        continue
                    if len(ck.violations) < 60:
                        ck.violation("%s [%s %s]: %s" % (ck.prop, c, run["variant"], "; ".join(ideal[:3])),
                                     {"family": "image", "cfg": c, "case": case, "observed": run, "mismatch": ideal, "asbuilt_explains": asbuilt_ok})
                    else:
                        ck.violations.append(("(more)", {"n": len(ck.violations)}))
        ck.count(nruns)
        ck.cov["distinct_nontrivial"] += nt
        ck.cov["traces_validated_against_impl"] += len(cases)
        ck.sample(cases[len(cases) // 2])
        total += len(cases)
    return total


def replay_one(ck, rec):
    obs = vf.run_harness("vimage", "overlay", [rec["case"]], args=["-a", "allvariants=1"])
    for run in obs[0]["runs"]:
        ideal, asb = compare(rec["case"], run)
        if ideal and not (rec["case"]["devs"] and asb and all(ck.known_finding(d, ideal[0]) for d in rec["case"]["devs"])):
            ck.violation("%s replay: %s" % (ck.prop, "; ".join(ideal[:3])), dict(rec, observed=run, mismatch=ideal))
    ck.count(1)
    ck.cov["distinct_nontrivial"] += 2
    ck.sample(rec["case"])
