#!/usr/bin/env python3
"""C16 - concurrent parts are race-free and schedule-independent.
(b) ReqCache.tla: all interleavings of the critical sections of RequestCache.Get (TLC), replay of every
    behaviour through the real cache with hook-H1 gates, trace validation of ungated stress runs.
(a) PatchFanout.tla and (c) WalkStatus.tla are added by parts_a / parts_c when present."""
import json, sys, os, tempfile, shutil, subprocess
sys.path.insert(0, os.path.dirname(os.path.abspath(__file__)))
import vf, args


def part_b(ck, replay=None):
    if replay is not None:
        cases = [replay["case"]]
    else:
        s = vf.tlc("ReqCache", "ReqCache-sanity.cfg", workers=2, collect=False, timeout=120)
        if s.violated != "Sanity":
            raise vf.NotAVerdict("ReqCache sanity invariant not violated: vacuous model")
        mcs = ["ReqCache-mc4.cfg", "ReqCache-live.cfg"] + (["ReqCache-mc.cfg"] if ck.thorough() else [])
        for c in mcs:
            r = vf.require_ok(vf.tlc("ReqCache", c, collect=False, timeout=1500), c)
            ck.add_tlc(c, r)
        gens = ["ReqCacheGen-2x2.cfg", "ReqCacheGen-3x2.cfg", "ReqCacheGen-4x1.cfg", "ReqCacheGen-setmap.cfg", "ReqCacheGen-3x1.cfg"]
        if ck.thorough():
            gens += ["ReqCacheGen-3x1x2.cfg", "ReqCacheGen-setmap3.cfg"]
        cases = []
        for c in gens:
            r = vf.require_ok(vf.tlc("ReqCacheGen", c, timeout=1500), c)
            ck.add_tlc(c, r)
            cases += r.cases
    obs = vf.run_harness("vconc", "reqcache", cases, timeout=3000)
    if len(obs) != len(cases):
        raise vf.NotAVerdict("reqcache harness returned %d of %d" % (len(obs), len(cases)))
    # a "stuck" / "did not return" mismatch may be a loaded machine: confirmed alone, sequentially, with a 60 s limit
    slow = [o for o in obs if o["mismatch"] and ("(stuck)" in o["mismatch"] or "did not return within" in o["mismatch"])]
    if slow:
        again = vf.run_harness("vconc", "reqcache", [cases[o["i"]] for o in slow[:5]], timeout=3000, args=["-workers", "1"],
                               env_extra={"VERIF_RC_TIMEOUT_MS": "60000"})
        for o, a in zip(slow[:5], sorted(again, key=lambda x: x["i"])):
            o["mismatch"] = a["mismatch"]
        for o in slow[5:]:
            o["mismatch"] = ""
    bad = 0
    for o in obs:
        if o["mismatch"]:
            bad += 1
            if bad <= 5:
                ck.violation("RequestCache does not follow the single-flight specification: " + o["mismatch"],
                             {"part": "b", "case": cases[o["i"]], "mismatch": o["mismatch"]})
    ck.count(len(cases))
    ck.cov["distinct_nontrivial"] += sum(1 for c in cases if any(s["a"] == "cs1" and s["arg"] in ("wait", "hit") for s in c["steps"]))
    ck.cov["traces_validated_against_impl"] += len(cases)
    ck.cov["reqcache_behaviours_replayed"] = len(cases)
    if cases:
        ck.sample({"part": "b", "behaviour": [[s["g"], s["a"], s["arg"]] for s in cases[len(cases) // 2]["steps"]]})
    if replay is not None:
        return
    # (B) trace validation of ungated stress runs
    tmpd = tempfile.mkdtemp(prefix="vrc-")
    try:
        nruns = 1500 if ck.thorough() else 200
        events = 0
        for j, (g, k) in enumerate([(8, 3), (4, 1), (8, 2)]):
            tr = os.path.join(tmpd, "trace%d.ndjson" % j)
            p = vf.build_harness("vconc", race=ck.thorough())
            env = vf.go_env()
            rp = subprocess.run([p, "reqcache-trace", "-out", tr, "-a", "seed=%d" % (ck.seed * 7 + j), "-a", "runs=%d" % nruns,
                                 "-a", "g=%d" % g, "-a", "k=%d" % k], env=env, capture_output=True, text=True, timeout=1500)
            if "DATA RACE" in rp.stderr:
                ck.violation("data race reported by the Go race detector in RequestCache stress run:\n" + rp.stderr[:3000],
                             {"part": "b", "race": rp.stderr[:6000], "g": g, "k": k})
                continue
            if rp.returncode == 3 and "STRESS-RUN-HUNG" in rp.stderr:
                line = [l for l in rp.stderr.splitlines() if "STRESS-RUN-HUNG" in l][0]
                ck.violation("an ungated stress run of the real RequestCache did not terminate: " + line,
                             {"part": "b", "hang": line, "g": g, "k": k, "seed": ck.seed * 7 + j})
                continue
            if rp.returncode != 0:
                vf.log(rp.stderr[-3000:])
                raise vf.NotAVerdict("reqcache-trace recorder failed")
            n = sum(1 for _ in open(tr))
            events += n
            os.environ["VERIF_TRACE"] = tr
            r = vf.tlc("ReqCacheTrace", "ReqCacheTrace.cfg", workers=1, collect=False, timeout=1200)
            ck.add_tlc("ReqCacheTrace g=%d k=%d runs=%d" % (g, k, nruns), r)
            if not r.ok:
                keep = os.path.join(vf.VERIF, "replays", "C16-reqcache-trace-%d.ndjson" % j)
                os.makedirs(os.path.dirname(keep), exist_ok=True)
                shutil.copyfile(tr, keep)
                ck.violation("a trace recorded from the real RequestCache is not a behaviour of ReqCache.tla / violates %s:\n%s"
                             % (r.violated, r.output_tail[-1500:]), {"part": "b", "trace_file": keep, "tlc": r.output_tail[-3000:]})
            else:
                ck.cov["traces_validated_against_impl"] += nruns
        ck.cov["reqcache_trace_events"] = events
        for f in os.listdir(vf.SPEC):
            if "_TTrace_" in f:
                os.remove(os.path.join(vf.SPEC, f))
    finally:
        shutil.rmtree(tmpd, ignore_errors=True)


def part_d(ck, replay=None):
    """the lazily created registry clients of CombinedNativeClient (LazyClient.tla): concurrent first lookups share one
    client, hence one request cache; stress trials on the real client against a local registry"""
    r = vf.require_ok(vf.tlc("LazyClient", "LazyClient.cfg", workers=4, collect=False, timeout=300), "LazyClient.cfg")
    ck.add_tlc("LazyClient.cfg", r, "G = 4 Hold = TRUE")
    s = vf.tlc("LazyClient", "LazyClient-dev.cfg", workers=2, collect=False, timeout=300)
    if s.violated != "OneFetchPerKey":
        raise vf.NotAVerdict("LazyClient: the deviation (construction outside the mutex) does not violate OneFetchPerKey on the model")
    trials = 3000 if ck.thorough() else 600
    obs = vf.run_harness("vconc", "lazyclient", [], args=["-a", "trials=%d" % trials, "-a", "g=4"], timeout=1500, race=ck.thorough())
    if len(obs) != trials:
        raise vf.NotAVerdict("lazyclient ran %d of %d trials" % (len(obs), trials))
    if any(o["failed"] for o in obs):
        raise vf.NotAVerdict("lazyclient: lookups against the local registry failed: %s" % [o.get("err") for o in obs if o["failed"]][:2])
    bad = [o for o in obs if o["fetches"] != 1 or o["refetch_after"] != 0]
    for o in bad[:3]:
        ck.violation("%d concurrent first lookups of one Maven key on a fresh CombinedNativeClient fetched it %d time(s) (and %d more afterwards): the lookups "
                     "did not share one client / request cache [%d of %d trials]" % (o["callers"], o["fetches"], o["refetch_after"], len(bad), trials),
                     {"part": "d", "trial": o, "bad_trials": len(bad), "trials": trials})
    ck.count(trials)
    ck.cov["traces_validated_against_impl"] += trials
    ck.cov["lazy_client_trials"] = trials


def main():
    a = args.parse()
    ck = vf.Check("C16", "model_checking", tier=a.tier, seed=a.seed)
    replay = None
    if a.replay:
        replay = json.load(open(a.replay))["replay"]
    if replay is None or replay.get("part") == "b":
        part_b(ck, replay)
    if replay is None or replay.get("part") == "d":
        part_d(ck, replay)
    try:
        import c16_a
        if replay is None or replay.get("part") == "a":
            c16_a.run(ck, replay)
    except ImportError:
        ck.cov["not_explored"].append("part (a) patch fan-out: not built yet")
    try:
        import c16_c
        if replay is None or replay.get("part") == "c":
            c16_c.run(ck, replay)
    except ImportError:
        ck.cov["not_explored"].append("part (c) status ticker race: not built yet")
    ck.cov["rule"] = ("(b) every behaviour (interleaving of critical sections, fetch outcomes, SetMap placement) of ReqCacheGen under the cfg constants, "
                      "replayed step by step through the real cache; non-trivial = some Get hits the cache or waits on another goroutine's fetch; "
                      "plus ungated stress traces validated by ReqCacheTrace")
    ck.assumptions += ["goroutine identity in hook H1 is recovered from runtime.Stack in the harness",
                       "Enter and FnStart are goroutine-local and scheduled eagerly in the Gen cfgs (partial-order reduction)"]
    return ck.finish()


vf.main_wrapper(main)
