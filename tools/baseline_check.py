#!/usr/bin/env python3
"""Runs the repository's pinned suite with the verif tag OFF and reports every BASELINE stable_pass test that does not pass."""
import json, subprocess, os, sys
env = dict(os.environ, GOFLAGS="-mod=mod", GOPROXY="off")
p = subprocess.run("cd /repo && go test -json -vet=off -count=1 -timeout 25m ./...", shell=True, env=env, capture_output=True, text=True)
res = {}
for line in p.stdout.splitlines():
    try:
        e = json.loads(line)
    except Exception:
        continue
    if e.get("Action") in ("pass", "fail", "skip") and e.get("Test"):
        res[e["Package"] + "::" + e["Test"]] = e["Action"]
base = json.load(open("/root/.vp/BASELINE.json"))
bad = [t for t in base["stable_pass"] if res.get(t) != "pass"]
print("tests seen", len(res), "stable_pass", len(base["stable_pass"]), "not passing", len(bad))
for t in bad[:50]:
    print("  ", t, res.get(t))
sys.exit(1 if bad else 0)
