#!/usr/bin/env python3
"""C19 - capability filtering and plugin name resolution are consistent.
Binding (M): `vscanpipe registry-dump` dumps the registry of the real code (every built-in plugin, what the
capability filters keep and what ValidateRequirements accepts for all 60 capability tuples, what every
advertised name resolves to, what EnableRequiredExtractors enables, whether a filtered config validates)
as ndjson facts; TLC walks the facts (Registry.tla, one fact per state) and checks every clause of the
property against Satisfies(req, cap) transcribed from the documentation of plugin.Capabilities.
A TLC invariant failure here is a failure of the real code: the facts are its own answers."""
import json, sys, os, tempfile, shutil
sys.path.insert(0, os.path.dirname(os.path.abspath(__file__)))
import vf, args

CLAUSE_TEXT = {
    "FilterExact": "FromCapabilities/FilterByCapabilities does not keep exactly the plugins whose stated requirements the environment satisfies",
    "ValidateExact": "plugin.ValidateRequirements disagrees with the documented meaning of the plugin's requirements for this environment",
    "NamesUnique": "plugin name is not unique within its lookup namespace, or the plugin is registered under a key that is not its Name()",
    "GroupNamesDistinct": "the definition file's names are inconsistent (duplicate name, group name shadows a plugin name, or All's keys are not the plugin names)",
    "AdvertisedResolves": "an advertised plugin/group name does not resolve (error, duplicates, or resolves to unregistered plugins)",
    "OwnNameReturnsPlugin": "resolving a plugin's own name does not return exactly that plugin",
    "GroupExact": "a group name does not resolve to exactly the members of the exported collection(s) it denotes",
    "RequiredEnabledTogether": "with several detectors configured together, one EnableRequiredExtractors call does not enable every extractor they require (each once)",
    "RequiredEnabled": "an extractor a detector declares as required does not resolve or is not enabled by EnableRequiredExtractors",
    "RequiredAdmissible": "an environment admits a detector but not an extractor it requires: a scan configured from the filtered set fails validation after auto-enabling",
    "FilteredValidates": "a ScanConfig built from the capability-filtered sets fails ValidatePluginRequirements",
}
PER_CLAUSE = 8


def related(facts, f):
    """facts that explain a failing one (the plugin entry, the resolve entry)."""
    out = []
    if f.get("fact") in ("validate", "enable_required"):
        out += [g for g in facts if g["fact"] == "plugin" and g["id"] == f["id"]]
    if f.get("fact") in ("group", "plugin"):
        out += [g for g in facts if g["fact"] == "resolve" and g["kind"] == f["kind"] and g["name"] == f["name"]]
    if f.get("fact") == "filter":
        out += [{"plugin": g["name"], "req": g["req"]} for g in facts if g["fact"] == "plugin" and g["kind"] == f["kind"]
                and g["req"] != {"os": "any", "net": "any", "dfs": False, "run": False}]
    if f.get("fact") == "plugin" and f.get("kind") == "detector":
        out += [g for g in facts if g["fact"] == "plugin" and g["kind"] != "detector" and g["name"] in f["required"]]
    return out[:40]


def brief(f):
    s = json.dumps({k: v for k, v in f.items() if k not in ("resolved_types", "n")}, sort_keys=True)
    return s if len(s) < 700 else s[:700] + "..."


def main():
    a = args.parse()
    ck = vf.Check("C19", "model_checking", tier=a.tier, seed=a.seed)
    recorded = None
    if a.replay:
        recorded = json.load(open(a.replay))["replay"]
    facts = vf.run_harness("vscanpipe", "registry-dump", cases=[], args=["-a", "repo=" + os.path.abspath(vf.REPO)], timeout=600)
    if not facts or [f["n"] for f in facts] != list(range(1, len(facts) + 1)):
        raise vf.NotAVerdict("registry-dump produced no / misnumbered facts")
    tmpd = tempfile.mkdtemp(prefix="vc19-")
    try:
        fp = os.path.join(tmpd, "facts.ndjson")
        with open(fp, "w") as f:
            for x in facts:
                f.write(json.dumps(x) + "\n")
        os.environ["VERIF_FACTS"] = fp
        s = vf.tlc("Registry", "Registry-sanity.cfg", workers=2, collect=False, timeout=300)
        if s.violated != "Sanity":
            raise vf.NotAVerdict("sanity invariant not violated: no plugin is both accepted and rejected by some environment (vacuous dump)")
        r = vf.tlc("Registry", "Registry.cfg", workers=4, collect=False, timeout=900)
        ck.add_tlc("Registry.cfg", r, "facts=%d (VERIF_FACTS); Caps = 5 OS x 3 network x 2 x 2" % len(facts))
        if not r.ok:
            if r.violated in ("WellFormed", "Complete"):
                vf.log(r.output_tail[-3000:])
                raise vf.NotAVerdict("the dump itself is malformed/incomplete (%s): harness defect, not a verdict" % r.violated)
            rep = vf.tlc("Registry", "Registry-report.cfg", workers=4, timeout=900)
            if not rep.ok:
                vf.log(rep.output_tail[-3000:])
                raise vf.NotAVerdict("report cfg failed")
            ck.add_tlc("Registry-report.cfg", rep)
            by = {}
            for c in rep.cases:
                by.setdefault(c["clause"], []).append(c["n"])
            if not by:
                vf.log(r.output_tail[-3000:])
                raise vf.NotAVerdict("TLC reported %s violated but the report cfg found no failing fact" % r.violated)
            for clause in sorted(by):
                ns = sorted(by[clause])
                for n in ns[:PER_CLAUSE]:
                    f = facts[n - 1]
                    ck.violation("%s: %s [clause %s of Registry.tla; %d fact(s) fail this clause] offending fact: %s"
                                 % (clause, CLAUSE_TEXT.get(clause, ""), clause, len(ns), brief(f)),
                                 {"clause": clause, "fact": f, "related": related(facts, f), "failing_facts_of_clause": len(ns)})
    finally:
        shutil.rmtree(tmpd, ignore_errors=True)
        for f in os.listdir(vf.SPEC):
            if "_TTrace_" in f:
                os.remove(os.path.join(vf.SPEC, f))
    if recorded is not None:
        same = [w for w, rp in ck.violations if rp["clause"] == recorded.get("clause")
                and {k: v for k, v in rp["fact"].items() if k != "n"} == {k: v for k, v in recorded.get("fact", {}).items() if k != "n"}]
        vf.log("[replay] recorded fact %s" % ("still violates " + recorded.get("clause", "?") if same else "no longer violates (or is no longer among the first reported)"))
    plugins = [f for f in facts if f["fact"] == "plugin"]
    noreq = {"os": "any", "net": "any", "dfs": False, "run": False}
    demanding = {f["id"] for f in plugins if f["req"] != noreq}
    kinds = {}
    for f in facts:
        kinds[f["fact"]] = kinds.get(f["fact"], 0) + 1
    ck.count(len(facts))
    ck.cov["distinct_nontrivial"] = (sum(1 for f in facts if f["fact"] == "validate" and f["id"] in demanding)
                                     + sum(1 for f in facts if f["fact"] in ("filter", "validate_filtered", "group"))
                                     + sum(1 for f in facts if f["fact"] == "resolve" and f["adv"] == "group")
                                     + sum(1 for f in facts if f["fact"] == "enable_required" and (f["fs"] or f["standalone"])))
    ck.cov["traces_validated_against_impl"] = len(facts)
    ck.cov["facts_by_type"] = kinds
    ck.cov["plugins"] = {k: sum(1 for f in plugins if f["kind"] == k) for k in ("fs", "standalone", "detector")}
    ck.cov["plugins_with_requirements"] = len(demanding)
    ck.cov["validate_rejections"] = sum(1 for f in facts if f["fact"] == "validate" and not f["ok"])
    ck.cov["capability_tuples"] = 60
    ck.cov["exhaustive"] = True
    ck.cov["rule"] = ("every fact of the registry dump: 76 plugins x 60 capability tuples (validate), 3 registries x 60 tuples (filter), every key of the "
                      "exported All maps and every string-literal group name of the three definition files (resolve), every group name that denotes "
                      "exported collections (group), every detector (enable_required), every tuple (validate_filtered); non-trivial = validate facts of "
                      "plugins with a non-empty requirement + filter/validate_filtered/group/group-resolve facts + detectors that require an extractor")
    for w in ("plugin", "filter", "validate", "resolve", "group", "enable_required", "validate_filtered"):
        xs = [f for f in facts if f["fact"] == w and (w != "validate" or f["id"] in demanding)]
        if xs:
            x = dict(xs[len(xs) // 2])
            for k in ("from_caps", "filter_all", "resolved", "resolved_types", "members", "fs_after_enable", "standalone_after_enable"):
                if k in x and len(x[k]) > 4:
                    x[k] = x[k][:4] + ["... %d more" % (len(x[k]) - 4)]
            ck.sample(x, cap=7)
    reg = [f for f in facts if f["fact"] == "registry"]
    unb = sum((f["unbound_collections"] for f in reg), [])
    unp = sum(f["unparsed_keys"] for f in reg)
    ck.cov["not_explored"] += [
        "the registry as compiled for this GOOS/GOARCH only (platform-specific plugins are their _dummy variants here; their Requirements() under GOOS=windows/darwin builds are not dumped)",
        "plugins constructed with non-default options; user-supplied plugins; nil Capabilities",
        "group names registered under non-literal keys: %d; exported collections unknown to the harness table: %s" % (unp, unb or "none"),
        "no random component: VERIF_SEED does not change what is explored (the enumeration is complete)"]
    ck.assumptions += [
        "Network requirement semantics: NetworkAny = don't care, otherwise the environment must be in the stated mode (doc comment of NetworkAny; pomxml is offline-only) - not a lower bound",
        "capability tuples include the values documented as requirement-only (OSAny, OSUnix, NetworkAny) on the environment side; Satisfies treats them literally",
        "uniqueness is demanded within each registry and across filesystem+standalone extractors (EnableRequiredExtractors and the CLI look a name up in both); "
        "not between detectors and extractors; a group name present in both extractor lists (default, all, containers) is intended",
        "a group name g denotes the exported collections named g, g+'Source', g+'Artifact' (case-insensitive) of the same definition file",
        "advertised names = keys of the exported All maps + string-literal keys of extractorNames/detectorNames parsed from the definition files the README points to"]
    return ck.finish()


vf.main_wrapper(main)
