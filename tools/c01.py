#!/usr/bin/env python3
"""C01 - every required file is extracted exactly once, and nothing else is (ScanWalk.tla, fault-free families)."""
import json, sys, os
sys.path.insert(0, os.path.dirname(os.path.abspath(__file__)))
import vf, args, scanwalk


def main():
    a = args.parse()
    ck = vf.Check("C01", "model_checking", tier=a.tier, seed=a.seed)
    if a.replay:
        scanwalk.replay_one(ck, json.load(open(a.replay))["replay"])
        return ck.finish()
    for sc, inv in (("ScanWalk-sanity.cfg", "SanityExtract"),):
        s = vf.tlc("ScanWalk", sc, workers=4, collect=False, timeout=300)
        if s.violated != inv:
            raise vf.NotAVerdict("sanity invariant %s not violated: vacuous model" % inv)
    fams = ["ScanWalk-F1-skip.cfg", "ScanWalk-F2-git.cfg", "ScanWalk-F3-paths.cfg", "ScanWalk-F4-size.cfg", "ScanWalk-F5-links.cfg", "ScanWalk-F8-rootsize.cfg", "ScanWalk-F3-deep.cfg"]
    if ck.thorough():
        fams = [f.replace(".cfg", "-t.cfg") if os.path.exists(os.path.join(vf.SPEC, "cfg", f.replace(".cfg", "-t.cfg"))) else f for f in fams]
        fams += [f for f in ["ScanWalk-F6-mixed-t.cfg"] if os.path.exists(os.path.join(vf.SPEC, "cfg", f))]
    modes = ["stream/plain", "fallback/nasty", "real/nasty", "wide/plain", "stream/blank"]
    scanwalk.run_family(ck, fams, modes)
    scanwalk.run_swap_family(ck, "ScanWalk-F3-swap.cfg", modes)
    ck.cov["exhaustive"] = True
    ck.cov["rule"] = ("every scenario (tree over a 10-slot path universe - 12 slots down to a/b/c/f in the deep family - with .gitignore files at every level, skip list/regex/glob, gitignore atoms, "
                      "requested paths, cut-off, size limit, symlink/special files, extractor 'required' sets) reachable in ScanWalk.tla under the cfg "
                      "constants, each replayed through scalibr.Scan on an in-memory FS (streaming and fallback listing, plain and dotted/spaced/dashed names) "
                      "and on a real directory; non-trivial = at least one Extract call expected")
    ck.cov["not_explored"] += ["sub-directory cut-off without requested paths", "requested path inside a directory excluded by skip list/regex/glob",
                               "explicitly requested directory that a parent .gitignore matches; for an explicitly requested file that a parent .gitignore matches only "
                               "the independence of the answer from the position of the request is checked (swap family), not the answer itself", "negated gitignore patterns",
                               "requested symlinks / special files", "nested requested paths together with the cut-off"]
    ck.assumptions += ["skip regex/glob are compiled by the harness to match exactly the modelled directory set (the regex/glob engines are not under test)",
                       "git's semantics of the pattern forms name, /name, name/ as transcribed in AtomMatch"]
    return ck.finish()


vf.main_wrapper(main)
