#!/usr/bin/env python3
"""C17 - symlink resolution in image views terminates with the right answer (SymlinkResolve.tla)."""
import json, sys, os
sys.path.insert(0, os.path.dirname(os.path.abspath(__file__)))
import vf, args


def judge(case, obs):
    """Returns list of mismatches for one graph."""
    mm = []
    kinds = case["kinds"]
    for d, per in obs.items():
        exp = case["expect"][d]
        for j, pr in enumerate(per):
            allowed = [tuple(x) for x in exp[j]]
            for op in ("stat", "open"):
                got = tuple(pr.get(op, ["missing-probe", 0]))
                if got not in allowed:
                    mm.append("maxDepth %s, %s of entry n%d (graph %s): got %s, allowed %s" % (d, op, j + 1, kinds, list(got), [list(a) for a in allowed]))
            rd = tuple(pr.get("readdir", ["missing-probe", 0]))
            classes = set(a[0] for a in allowed)
            # ReadDir resolves the final symlink the same way: a cycle / depth error must surface, a resolvable directory must list;
            # what listing a missing or deleted path returns is not part of this property
            if classes <= {"cycle", "depth"} and rd[0] not in ("cycle", "depth"):
                mm.append("maxDepth %s, ReadDir of entry n%d (graph %s): %s, allowed %s" % (d, j + 1, kinds, rd[0], [list(a) for a in allowed]))
            if classes == {"target"} and kinds[allowed[0][1] - 1][0] == "dir" and rd[0] != "ok":
                mm.append("maxDepth %s, ReadDir of entry n%d (graph %s) failed with %s although it resolves to a directory" % (d, j + 1, kinds, rd[0]))
            if rd[0].startswith("err:") or rd[0].startswith("panic"):
                mm.append("maxDepth %s, ReadDir of entry n%d (graph %s): %s" % (d, j + 1, kinds, rd[0]))
    return mm


def main():
    a = args.parse()
    ck = vf.Check("C17", "model_checking", tier=a.tier, seed=a.seed)
    if a.replay:
        cases = [json.load(open(a.replay))["replay"]["case"]]
    else:
        for sc, inv in (("SymlinkResolve-sanity1.cfg", "SanityCycle"), ("SymlinkResolve-sanity2.cfg", "SanityDepth")):
            s = vf.tlc("SymlinkResolve", sc, workers=4, collect=False, timeout=300)
            if s.violated != inv:
                raise vf.NotAVerdict("sanity invariant %s not violated: vacuous model" % inv)
        cfgs = ["SymlinkResolve-n3.cfg", "SymlinkResolve-n4rel.cfg"] + (["SymlinkResolve-n4.cfg", "SymlinkResolve-n4all.cfg", "SymlinkResolve-n5rel.cfg"] if ck.thorough() else [])
        cases = []
        for c in cfgs:
            r = vf.require_ok(vf.tlc("SymlinkResolve", c, timeout=2400), c)
            ck.add_tlc(c, r, open(os.path.join(vf.SPEC, "cfg", c)).read().split("SPECIFICATION")[0].strip())
            cases += r.cases
    req_cases = [c for c in cases if "req" in c]
    cases = [c for c in cases if "req" not in c]
    if not a.replay:
        # SymlinkRequire.tla: the same graphs loaded with a file requirer (the pruning keeps the targets of required symlinks)
        s = vf.tlc("SymlinkRequire", "SymlinkRequire-asfound.cfg", workers=4, collect=False, timeout=600)
        if s.violated != "SanityOrderDependent":
            raise vf.NotAVerdict("SymlinkRequire: the as-found pruning is not order dependent in the model: vacuous")
        for c in ["SymlinkRequire-n3.cfg"] + (["SymlinkRequire-n4.cfg"] if ck.thorough() else []):
            r = vf.require_ok(vf.tlc("SymlinkRequire", c, timeout=2400), c)
            ck.add_tlc(c, r, open(os.path.join(vf.SPEC, "cfg", c)).read().split("SPECIFICATION")[0].strip())
            req_cases += r.cases
    # the walk that prunes follows Go's map order: every restricted load is repeated
    for rep in range(3 if req_cases else 0):
        by_depths = {}
        for c in req_cases:
            by_depths.setdefault(",".join(sorted(c["expect"].keys())), []).append(c)
        for ds, group in by_depths.items():
            robs = vf.run_harness("vimage", "symlink", group, args=["-a", "req=1", "-a", "depths=" + ds], timeout=3000)
            if len(robs) != len(group):
                raise vf.NotAVerdict("symlink harness (requirer) returned %d of %d" % (len(robs), len(group)))
            for o in robs:
                case = group[o["i"]]
                mm = judge(case, o["obs"])
                if mm and len(ck.violations) < 40:
                    ck.violation("C17 (image loaded with a requirer for entries %s): %s" % (case["req"], "; ".join(mm[:2])), {"case": case, "observed": o["obs"], "mismatch": mm[:10]})
            ck.count(sum(len(c["kinds"]) * len(c["expect"]) * 3 for c in group))
            ck.cov["traces_validated_against_impl"] += len(group)
            ck.cov["requirer_graphs"] = ck.cov.get("requirer_graphs", 0) + len(group)
    obs = vf.run_harness("vimage", "symlink", cases, timeout=3000) if cases else []
    if len(obs) != len(cases):
        raise vf.NotAVerdict("symlink harness returned %d of %d" % (len(obs), len(cases)))
    nt = 0
    for o in obs:
        case = cases[o["i"]]
        if any(k[0] in ("rel", "abs", "abs2", "relup") for k in case["kinds"]):
            nt += 1
        mm = judge(case, o["obs"])
        # the view below the deleting layer, asked before and after the final view
        for key in ("obs0", "obs0again"):
            if key in o and "expect0" in case:
                mm += ["[view below the deleting layer, %s the final view was asked] %s" % ("before" if key == "obs0" else "after", m)
                       for m in judge({"kinds": case["kinds"], "expect": case["expect0"]}, o[key])]
        if mm and len(ck.violations) < 40:
            ck.violation("C17: " + "; ".join(mm[:2]), {"case": case, "observed": o["obs"], "mismatch": mm[:10]})
        elif mm:
            ck.violations.append(("(more)", {"n": len(ck.violations)}))
    ck.count(sum(len(c["kinds"]) * 7 * 3 for c in cases))
    ck.cov["distinct_nontrivial"] = nt
    ck.cov["traces_validated_against_impl"] += len(cases)
    ck.cov["exhaustive"] = True
    ck.cov["rule"] = ("every graph on N named entries (N = 3,4; thorough also 5), each a file, directory, missing, deleted by a later layer's whiteout, a symlink leaving the root, or a "
                      "relative / absolute / non-canonically spelled absolute symlink to any entry, x every MaxSymlinkDepth 0..6; graphs are packed 1000 per real image and every entry is probed "
                      "with Stat, Open(+Stat) and ReadDir in the view below the deleting layer, then the final view, then the first again; images alternate between with and without config history; plus (SymlinkRequire.tla) every graph on 3 (thorough: 4) entries x every set of required entries loaded with a file requirer, 3 times each; "
                      "non-trivial = the graph contains a symlink")
    ck.sample((cases or req_cases)[len(cases or req_cases) // 3])
    ck.assumptions += ["when the chain reaches a missing entry exactly when the hop budget is exhausted both 'not found' and the depth error are accepted",
                       "Open of a deleted path may return a handle whose Stat says not-exist"]
    return ck.finish()


vf.main_wrapper(main)
